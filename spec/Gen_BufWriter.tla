---------------------------- MODULE Gen_BufWriter ----------------------------
(* Generator for the writer: shortest history to every space_left value,   *)
(* with a bit buffer that is all zeros and with one that holds stale bits  *)
(* (after a completed word the code leaves the old content in place: the   *)
(* word-aligned state of a fresh writer and that of a writer that has      *)
(* delivered words differ there, and code that assumes a clean buffer      *)
(* fails only in the second).                                              *)
EXTENDS BufWriterImpl, TLC, Json

VARIABLES st, hist
vars == <<st, hist>>

Init == st = St(VZero(W), W) /\ hist = <<>>

Go(r, op) == ~r.bad /\ st' = St(r.buf, r.space) /\ hist' = Append(hist, op)

Next == /\ Len(hist) < 3
        /\ \/ \E n \in 1..Min2(64, W) : Go(WriteBits(st, Ones(64), n), [op |-> "write_bits", n |-> n])
           \/ \E x \in 0..W : Go(WriteUnary(st, x), [op |-> "write_unary", x |-> x])

Spec == Init /\ [][Next]_vars
View == <<st.space, st.buf = VZero(W)>>
Emit == PrintT(<<"PATH", ToJson([space |-> st.space, w |-> W, stale |-> st.buf # VZero(W), path |-> hist])>>)
=============================================================================
