---------------------------- MODULE Gen_BufWriter ----------------------------
(* Generator for the writer: shortest history to every space_left value.   *)
EXTENDS BufWriterImpl, TLC, Json

VARIABLES st, hist
vars == <<st, hist>>

Init == st = St(VZero(W), W) /\ hist = <<>>

Go(r, op) == ~r.bad /\ st' = St(r.buf, r.space) /\ hist' = Append(hist, op)

Next == /\ Len(hist) < 3
        /\ \/ \E n \in 1..Min2(64, W) : Go(WriteBits(st, Ones(64), n), [op |-> "write_bits", n |-> n])
           \/ \E x \in 0..W : Go(WriteUnary(st, x), [op |-> "write_unary", x |-> x])

Spec == Init /\ [][Next]_vars
View == st.space
Emit == PrintT(<<"PATH", ToJson([space |-> st.space, w |-> W, path |-> hist])>>)
=============================================================================
