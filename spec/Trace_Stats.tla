----------------------------- MODULE Trace_Stats -----------------------------
(* Trace validation of CodesStats / CodesStatsWrapper against Stats.         *)
EXTENDS Stats, TLC, Json, IOUtils
Rec == ndJsonDeserialize(IOEnv.TRACE)
N == Len(Rec)
VARIABLES l, sts
vars == <<l, sts>>
Ev == Rec[l]
Is(op) == l <= N /\ Rec[l].op = op
Step == l' = l + 1
Put(f, k, v) == [x \in (DOMAIN f) \cup {k} |-> IF x = k THEN v ELSE f[x]]
Nat8(bs) == BytesToNat(bs)

Init == l = 1 /\ sts = <<>>
Reset == Is("reset") /\ Step /\ sts' = <<>>
SizesOf(e) == IF "sizes" \in DOMAIN e THEN [zeta |-> e.sizes[1], golomb |-> e.sizes[2], exp_golomb |-> e.sizes[3], rice |-> e.sizes[4], pi |-> e.sizes[5]] ELSE DefaultSizes
New == Is("st_new") /\ Step /\ sts' = Put(sts, Ev.o, Empty(SizesOf(Ev)))
Upd == /\ Is("st_update") /\ Step
       /\ Ev.ret = Ev.v
       /\ sts' = [sts EXCEPT ![Ev.o] = Update(@, Nat8(Ev.v), Nat8(Ev.count))]
AddE == Is("st_add") /\ Step /\ sts' = [sts EXCEPT ![Ev.o] = Plus(@, sts[Ev.o2])]
\* the fields of the real object, in the order of Stats!Tracked
Fields(e) == <<e.unary, e.gamma, e.delta, e.omega, e.vbyte>> \o e.zeta \o e.golomb \o e.exp_golomb \o e.rice \o e.pi
Snap == /\ Is("st_snap") /\ Step /\ UNCHANGED sts
        /\ LET s == sts[Ev.o]  f == Fields(Ev)
           IN  /\ Len(f) = NTOf(s.sz)
               /\ Nat8(Ev.total) = s.total
               /\ \A i \in 1..NTOf(s.sz) : Nat8(f[i]) = s.t[i]
Best == /\ Is("st_best") /\ Step /\ UNCHANGED sts
        /\ BestOK(sts[Ev.o], Code(Ev.c, Ev.k, Nat8(Ev.cb)), Nat8(Ev.cost))
        \* writing the values with the reported code takes exactly that many bits
        /\ ("written" \in DOMAIN Ev) => Nat8(Ev.written) = Nat8(Ev.cost)
Next == Reset \/ New \/ Upd \/ AddE \/ Snap \/ Best
Spec == Init /\ [][Next]_vars
Accepted ==
    LET d == TLCGet("stats").diameter
    IN  IF d - 1 = N THEN TRUE
        ELSE PrintT(<<"REJECTED", d, IF d <= N THEN Rec[d] ELSE "eof">>) /\ FALSE
=============================================================================
