---------------------------- MODULE MC_BufReader ----------------------------
(***************************************************************************)
(* Model checking of the implementation-shaped buffered reader.  From      *)
(* every representative state (every backend cursor, every fill level      *)
(* 0..2W-1 consistent with it, buffer = the window of the data) every      *)
(* operation of the alphabet must return what the abstract machine returns *)
(* from pos = wpos*W - bib, advance by exactly the right amount, keep the  *)
(* buffer clean (BufOK: the inductive representation invariant), use no    *)
(* out-of-range shift, and fail exactly when a bit beyond the end of a     *)
(* strict backend is needed.  Depth > 1 composes operations.               *)
(***************************************************************************)
EXTENDS BufReaderImpl, TLC

CONSTANTS Depth, Full,
          Pat,      \* data pattern: 1 all ones, 2 sparse ones (long zero runs), 3 alternating, 4 pseudo-random
          NW        \* words of data

\* SubSeq forces a concrete tuple (evaluated once, constant-level), instead of a
\* lazily evaluated function re-computed at every access
DataConst == SubSeq(
    [i \in 1..(NW * W) |->
        CASE Pat = 1 -> 1
          [] Pat = 2 -> IF i % (W + 3) = 0 THEN 1 ELSE 0
          [] Pat = 3 -> i % 2
          [] OTHER   -> ((i * i * 7 + i * 13 + (i \div 3)) \div 5) % 2], 1, NW * W)

VARIABLES st, ok, d, last
vars == <<st, ok, d, last>>

Init == /\ \E wp \in 0..NWords : \E b \in 0..(BB - 1) :
              b <= wp * W /\ st = St(WindowBuf(wp, b), b, wp)
        /\ ok = TRUE /\ d = 0 /\ last = <<"init">>

Ns == IF Full THEN 0..64 ELSE ({0, 1, 2, 7, 8, 9, 15, 16, 17, 31, 32, 33, 62, 63, 64} \cup {W - 1, W, W + 1}) \cap (0..64)
PeekNs == IF Full THEN 1..W ELSE {1, 2, 9, 11, 12, W - 1, W} \cap (1..W)
SkipNs == IF Full THEN 0..(3 * W + 1) ELSE {0, 1, W - 1, W, W + 1, 2 * W - 1, 2 * W, 2 * W + 1, 3 * W, 3 * W + 1}
CopyNs == IF Full THEN 0..(3 * W + 1) ELSE {0, 1, W - 1, W, W + 1, 63, 64, 65, 2 * W - 1, 2 * W, 2 * W + 1, 3 * W, 3 * W + 1, 2 * W + 63, 2 * W + 64, 2 * W + 65}
SeekPs == IF Full THEN 0..Len(Data) ELSE {p \in 0..Len(Data) : p % W \in {0, 1, W - 1}}

\* skip-after-peek amounts tried after a peek of n bits
SkipAfter(n) == IF Full /\ W <= 16 THEN 0..n ELSE {0, 1, n \div 2, n - 1, n}

Set(r, good, lbl) ==
    \* after a backend error the reader's later behaviour is unspecified: not explored further
    /\ st' = IF r.err THEN st ELSE St(r.buf, r.bib, r.wpos)
    /\ ok' = good
    /\ d' = d + 1
    /\ last' = lbl

\* a successful step: no error, no bad shift, lands on the right position with a clean buffer
Lands(r, p) == ~r.err /\ ~r.bad /\ BufOK(St(r.buf, r.bib, r.wpos)) /\ Pos(St(r.buf, r.bib, r.wpos)) = p

DoReadBits == \E n \in Ns :
    LET r == ReadBits(st, n)  p == Pos(st)
    IN  Set(r, IF InData(p, n) THEN Lands(r, p + n) /\ r.val = Expect(p, n, 64) ELSE (r.err \/ n = 0),
            <<"read_bits", n>>)

DoPeek == \E n \in PeekNs :
    LET r == Peek(st, n)  p == Pos(st)
        s1 == St(r.buf, r.bib, r.wpos)
        r2 == Peek(s1, n)
    IN  Set(r, IF InData(p, n)
               THEN /\ Lands(r, p) /\ r.val = Expect(p, n, BB)
                    \* repeatable: same value, state unchanged
                    /\ r2.val = r.val /\ St(r2.buf, r2.bib, r2.wpos) = s1
                    \* and every skip-after-peek of at most n bits lands cleanly
                    /\ \A k \in SkipAfter(n) : Lands(SkipAfterPeek(s1, k), p + k)
               ELSE r.err,
            <<"peek_bits", n>>)

DoSkip == \E n \in SkipNs :
    LET r == SkipBits(st, n)  p == Pos(st)
    IN  Set(r, IF InData(p, n) THEN Lands(r, p + n) ELSE (r.err \/ Lands(r, p + n)), <<"skip_bits", n>>)

\* first one at or after p: index, or -1
RECURSIVE FirstOne(_)
FirstOne(p) == IF p >= Len(Data) THEN -1 ELSE IF Data[p + 1] = 1 THEN p ELSE FirstOne(p + 1)

DoReadUnary ==
    LET p == Pos(st)  q == FirstOne(p) IN
    /\ (q >= 0 \/ Strict)            \* never asked on an all-zero tail of a zero-extended stream
    /\ LET r == ReadUnary(st)
       IN  Set(r, IF q >= 0 THEN Lands(r, q + 1) /\ r.val = q - p ELSE r.err, <<"read_unary">>)

DoSeek == \E p \in SeekPs :
    LET r == SetBitPos(st, p)
    IN  Set(r, Lands(r, p), <<"set_bit_pos", p>>)

DoCopyTo == \E n \in CopyNs :
    LET r == CopyTo(st, n)  p == Pos(st)
    IN  Set(r, IF InData(p, n)
               THEN Lands(r, p + n) /\ WrBits(r.wr, 1) = DSlice(p, n) /\ \A i \in 1..Len(r.wr) : r.wr[i].n <= 64
               ELSE r.err,
            <<"copy_to", n>>)

Next == d < Depth /\ ok /\
        (DoReadBits \/ DoPeek \/ DoSkip \/ DoReadUnary \/ DoSeek \/ DoCopyTo)

Spec == Init /\ [][Next]_vars

Refines == ok
=============================================================================
