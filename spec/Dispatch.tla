------------------------------ MODULE Dispatch ------------------------------
(***************************************************************************)
(* Code identifiers.  The code enumeration, the compile-time constants     *)
(* (addressed by NAME: family prefix + index, never by number), which      *)
(* enumeration values the function-pointer dispatchers support, the text   *)
(* grammar of code names (on token records) and the equivalence classes.   *)
(* The oracle for every dispatch mechanism is Codes!Enc/Dec/CLen of the    *)
(* code the identifier NAMES.                                              *)
(***************************************************************************)
EXTENDS Codes

\* enumeration variant name + parameter -> code
ParamLess == {"Unary", "Gamma", "Delta", "Omega", "VByteBe", "VByteLe"}
Parametric == {"Zeta", "Pi", "Golomb", "ExpGolomb", "Rice"}
EnumCode(name, p) ==
    CASE name = "Unary"     -> CUnary
      [] name = "Gamma"     -> CGamma
      [] name = "Delta"     -> CDelta
      [] name = "Omega"     -> COmega
      [] name = "VByteBe"   -> CVByteBe
      [] name = "VByteLe"   -> CVByteLe
      [] name = "Zeta"      -> CZeta(ToInt(p))
      [] name = "Pi"        -> CPi(ToInt(p))
      [] name = "ExpGolomb" -> CExpGolomb(ToInt(p))
      [] name = "Rice"      -> CRice(ToInt(p))
      [] name = "Golomb"    -> CGolomb(p)

\* compile-time constant: prefix + index, e.g. <<"PI", 1>> is code_consts::PI1
ConstPrefixes == {"UNARY", "GAMMA", "DELTA", "OMEGA", "VBYTE_BE", "VBYTE_LE",
                  "ZETA", "RICE", "PI", "GOLOMB", "EXP_GOLOMB"}
ConstCodeOf(prefix, i) ==
    CASE prefix = "UNARY"      -> CUnary
      [] prefix = "GAMMA"      -> CGamma
      [] prefix = "DELTA"      -> CDelta
      [] prefix = "OMEGA"      -> COmega
      [] prefix = "VBYTE_BE"   -> CVByteBe
      [] prefix = "VBYTE_LE"   -> CVByteLe
      [] prefix = "ZETA"       -> CZeta(i)           \* 1..10
      [] prefix = "RICE"       -> CRice(i)           \* 0..10
      [] prefix = "PI"         -> CPi(i)             \* 0..10
      [] prefix = "GOLOMB"     -> CGolomb(FromInt(i)) \* 1..10
      [] prefix = "EXP_GOLOMB" -> CExpGolomb(i)      \* 0..10
ConstExists(prefix, i) ==
    CASE prefix \in {"UNARY", "GAMMA", "DELTA", "OMEGA", "VBYTE_BE", "VBYTE_LE"} -> i = 0
      [] prefix \in {"ZETA", "GOLOMB"} -> i \in 1..10
      [] prefix \in {"RICE", "PI", "EXP_GOLOMB"} -> i \in 0..10
      [] OTHER -> FALSE

\* which enumeration values the function-pointer tables accept
Supported(c) ==
    CASE c.f \in {"unary", "gamma", "delta", "omega", "vbyte_be", "vbyte_le"} -> TRUE
      [] c.f = "zeta" -> c.k \in 1..10
      [] c.f \in {"rice", "pi", "exp_golomb"} -> c.k \in 0..10
      [] c.f = "golomb" -> Len(c.b) <= 4 /\ ToInt(c.b) \in 1..10
      [] OTHER -> FALSE

\* identical codewords (on a grid, both endiannesses)
EqGrid == {FromInt(i) : i \in 0..40} \cup {FromInt(1000), FromInt(65535), Pow2(20), Dec1(Pow2(33))}
SameCodewords(a, b) ==
    \A E \in {"be", "le"} : \A n \in EqGrid :
        (InDomain(a, n) /\ InDomain(b, n) /\ (a.f \notin {"unary", "rice", "golomb"} \/ Len(n) <= 12)
                                          /\ (b.f \notin {"unary", "rice", "golomb"} \/ Len(n) <= 12))
            => Enc(a, E, n) = Enc(b, E, n)

\* the documented equivalence classes
Canon(c) ==
    CASE c.f = "rice" /\ c.k = 0 -> CUnary
      [] c.f = "golomb" /\ c.b = <<1>> -> CUnary
      [] c.f = "zeta" /\ c.k = 1 -> CGamma
      [] c.f = "exp_golomb" /\ c.k = 0 -> CGamma
      [] c.f = "pi" /\ c.k = 0 -> CGamma
      [] c.f = "golomb" /\ c.b = <<1, 0>> -> CRice(1)
      [] c.f = "golomb" /\ c.b = <<1, 0, 0>> -> CRice(2)
      [] c.f = "golomb" /\ c.b = <<1, 0, 0, 0>> -> CRice(3)
      [] OTHER -> c

\* ---- text grammar, on tokens:
\*   [name, paren, pkind, pval, trailing, close]
\*   pkind in {"none", "empty", "nat", "neg", "alpha", "overflow"}
\* "well-formed" = Name for the parameterless variants, Name(nat) for the others
\* `close': the closing parenthesis is there (a missing one makes the text malformed, but a
\* parameter that is not a number must be rejected with or without it)
Closed(t) == IF "close" \in DOMAIN t THEN t.close ELSE TRUE
WellFormed(t) ==
    \/ t.name \in ParamLess /\ ~t.paren /\ t.pkind = "none" /\ ~t.trailing
    \/ t.name \in Parametric /\ t.paren /\ t.pkind = "nat" /\ ~t.trailing /\ Closed(t)
\* classes the property says must be rejected
MustReject(t) ==
    \/ t.name \notin (ParamLess \cup Parametric)                      \* empty or unknown name
    \/ t.name \in ParamLess /\ t.paren                                 \* parameterless name given a parameter
    \/ t.name \in Parametric /\ (~t.paren \/ t.pkind \in {"none", "empty", "neg", "alpha", "overflow"})
ParseStep(t, res, code) ==
    IF MustReject(t) THEN res = "err"
    ELSE IF WellFormed(t) THEN res = "ok" /\ code = EnumCode(t.name, t.pval)
    ELSE \* e.g. trailing characters after a well-formed prefix: not constrained by the property
         res = "err" \/ (res = "ok" /\ code = EnumCode(t.name, t.pval))
=============================================================================
