------------------------------ MODULE BitSeqs ------------------------------
(***************************************************************************)
(* Arbitrary-precision naturals and fixed-width bit vectors as sequences   *)
(* of bits.  TLC integers are 32-bit, the library works on 64/128-bit      *)
(* quantities, so everything wider than 30 bits lives here.                *)
(*                                                                         *)
(*  - a NATURAL is a normalized MSB-first bit sequence (no leading zero,   *)
(*    <<>> is 0);                                                          *)
(*  - a VECTOR of width w is a length-w bit sequence, MSB first;           *)
(*  - a STREAM is a bit sequence in stream order (index 1 = first bit).    *)
(*                                                                         *)
(* Operators take an int fast path when all operands fit in 30 bits.       *)
(***************************************************************************)
EXTENDS Naturals, Integers, Sequences
LOCAL INSTANCE SequencesExt

Bit == {0, 1}

Zeros(n) == [i \in 1..n |-> 0]
Ones(n)  == [i \in 1..n |-> 1]
Rev(s)   == [i \in 1..Len(s) |-> s[Len(s) + 1 - i]]

Min2(a, b) == IF a <= b THEN a ELSE b
Max2(a, b) == IF a >= b THEN a ELSE b

RECURSIVE Pow2Int(_)
Pow2Int(k) == IF k = 0 THEN 1 ELSE 2 * Pow2Int(k - 1)   \* k <= 30

\* TLC evaluates deep recursion in time quadratic in the depth, so scans over
\* long sequences use the SequencesExt operators (evaluated natively).
IsOne(b) == b = 1
IsZero(b) == b = 0
\* index of the first 1 in s at or after i, Len(s)+1 if none
FirstOneFrom(s, i) == IF i > Len(s) THEN Len(s) + 1
                      ELSE LET k == SelectInSubSeq(s, i, Len(s), IsOne) IN IF k = 0 THEN Len(s) + 1 ELSE k
\* index of the last 0 (resp. 1) in s at or before i, 0 if none
LastZeroUpTo(s, i) == IF i = 0 THEN 0 ELSE SelectLastInSubSeq(s, 1, i, IsZero)
LastOneUpTo(s, i) == IF i = 0 THEN 0 ELSE SelectLastInSubSeq(s, 1, i, IsOne)

Norm(s) == SubSeq(s, FirstOneFrom(s, 1), Len(s))
IsNat(b) == b = <<>> \/ b[1] = 1

\* ---- ints <-> naturals (ints below 2^30)
RECURSIVE FromIntR(_)
FromIntR(i) == IF i = 0 THEN <<>> ELSE Append(FromIntR(i \div 2), i % 2)
FromInt(i) == FromIntR(i)
TwiceP(acc, bit) == 2 * acc + bit
ToInt(b) == FoldLeft(TwiceP, 0, b)      \* any bit sequence of value < 2^31 (evaluated natively)
Small(b) == Len(b) <= 29

\* ---- width-w views
Pad(b, w)  == Zeros(w - Len(b)) \o b                    \* Len(b) <= w
Low(b, w)  == IF Len(b) >= w THEN SubSeq(b, Len(b) - w + 1, Len(b)) ELSE Pad(b, w)
Pow2(k)    == <<1>> \o Zeros(k)
ShiftL(b, k) == IF b = <<>> THEN <<>> ELSE b \o Zeros(k)
ShiftR(b, k) == IF k >= Len(b) THEN <<>> ELSE SubSeq(b, 1, Len(b) - k)
Log2(b)    == Len(b) - 1                                 \* b > 0

\* ---- increment / decrement
Inc(b) == LET j == LastZeroUpTo(b, Len(b))
          IN  IF j = 0 THEN <<1>> \o Zeros(Len(b))
              ELSE SubSeq(b, 1, j - 1) \o <<1>> \o Zeros(Len(b) - j)
Dec1(b) == LET j == LastOneUpTo(b, Len(b))                \* b > 0
           IN  Norm(SubSeq(b, 1, j - 1) \o <<0>> \o Ones(Len(b) - j))

\* ---- comparison: -1, 0, 1
NotZeroInt(x) == x # 0
CmpFrom(a, b, i) ==         \* equal lengths: sign of the first differing position
    LET d == [k \in 1..Len(a) |-> a[k] - b[k]]
        j == IF Len(a) = 0 THEN 0 ELSE SelectInSubSeq(d, 1, Len(a), NotZeroInt)
    IN  IF j = 0 THEN 0 ELSE d[j]
Cmp(a, b) == IF Len(a) < Len(b) THEN -1
             ELSE IF Len(a) > Len(b) THEN 1 ELSE CmpFrom(a, b, 1)
Lt(a, b)  == Cmp(a, b) = -1
Leq(a, b) == Cmp(a, b) <= 0

\* ---- addition / subtraction.  TLC pays for recursion depth, so wide values are
\* cut in 24-bit limbs (TLC integers), least significant limb first.
LimbBits == 24
LimbBase == 16777216
P2T == [k \in 0..30 |-> Pow2Int(k)]
NLimbs(w) == (w + LimbBits - 1) \div LimbBits
\* limbs of a width-w vector
LimbsOf(v) ==
    LET w == Len(v)
    IN  [i \in 1..NLimbs(w) |->
            ToInt(SubSeq(v, Max2(1, w - i * LimbBits + 1), w - (i - 1) * LimbBits))]
IntBits(x, n) == [k \in 1..n |-> (x \div P2T[n - k]) % 2]            \* n-bit vector of x < 2^n
\* vector of width LimbBits * Len(ls) from limbs
RECURSIVE VecOfLimbs(_, _)
VecOfLimbs(ls, i) == IF i = 0 THEN <<>> ELSE IntBits(ls[i], LimbBits) \o VecOfLimbs(ls, i - 1)
RECURSIVE AddL(_, _, _, _)
AddL(la, lb, i, c) ==       \* la, lb same length; returns limbs, one more if there is a final carry
    IF i > Len(la) THEN (IF c = 1 THEN <<1>> ELSE <<>>)
    ELSE LET t == la[i] + lb[i] + c IN <<t % LimbBase>> \o AddL(la, lb, i + 1, t \div LimbBase)
RECURSIVE SubL(_, _, _, _)
SubL(la, lb, i, br) ==      \* la >= lb as numbers (or modulo the width)
    IF i > Len(la) THEN <<>>
    ELSE LET t == la[i] - lb[i] - br
         IN  <<IF t < 0 THEN t + LimbBase ELSE t>> \o SubL(la, lb, i + 1, IF t < 0 THEN 1 ELSE 0)
LimbsToVec(ls) == VecOfLimbs(ls, Len(ls))
\* equal-width vector addition (result one limb group wider) and subtraction (modulo the width)
AddVec(a, b) == LimbsToVec(AddL(LimbsOf(a), LimbsOf(b), 1, 0))
SubVec(a, b) == Low(LimbsToVec(SubL(LimbsOf(a), LimbsOf(b), 1, 0)), Len(a))

Add(a, b) == IF Small(a) /\ Small(b) THEN FromInt(ToInt(a) + ToInt(b))
             ELSE LET w == Max2(Len(a), Len(b)) IN Norm(AddVec(Pad(a, w), Pad(b, w)))
Sub(a, b) == IF Small(a) THEN FromInt(ToInt(a) - ToInt(b))          \* a >= b
             ELSE LET w == Len(a) IN Norm(SubVec(a, Pad(b, w)))
\* (a - b) modulo 2^w, (a + b) modulo 2^w, as naturals
SubMod(a, b, w) == Norm(SubVec(Low(a, w), Low(b, w)))
AddMod(a, b, w) == Norm(Low(AddVec(Low(a, w), Low(b, w)), w))

\* ---- multiplication by a small int and long division
RECURSIVE MulAcc(_, _, _, _)
MulAcc(a, b, i, acc) ==         \* acc + a * b[i..], schoolbook over the bits of b
    IF i > Len(b) THEN acc
    ELSE MulAcc(a, b, i + 1, LET d == ShiftL(acc, 1) IN IF b[i] = 1 THEN Add(d, a) ELSE d)
Mul(a, b) == IF Len(a) + Len(b) <= 30 THEN FromInt(ToInt(a) * ToInt(b))
             ELSE MulAcc(a, b, 1, <<>>)

RECURSIVE DivModAcc(_, _, _, _, _)
DivModAcc(a, b, i, q, r) ==
    IF i > Len(a) THEN <<Norm(q), r>>
    ELSE LET r2 == Norm(r \o <<a[i]>>)
         IN  IF Leq(b, r2) THEN DivModAcc(a, b, i + 1, q \o <<1>>, Sub(r2, b))
             ELSE DivModAcc(a, b, i + 1, q \o <<0>>, r2)
\* <<quotient, remainder>>, b > 0
DivMod(a, b) == IF Small(a) /\ Small(b)
                THEN <<FromInt(ToInt(a) \div ToInt(b)), FromInt(ToInt(a) % ToInt(b))>>
                ELSE IF Lt(a, b) THEN <<<<>>, a>>
                ELSE DivModAcc(a, b, 1, <<>>, <<>>)

\* ---- bytes
RECURSIVE ByteBitsOf(_, _)
ByteBitsOf(v, k) == IF k = 0 THEN <<>> ELSE Append(ByteBitsOf(v \div 2, k - 1), v % 2)
ByteBits == [v \in 0..255 |-> ByteBitsOf(v, 8)]      \* MSB first
\* big-endian bytes of a value (e.g. a u64 as 8 bytes, MSB byte first) -> vector
RECURSIVE BytesToVecAcc(_, _, _)
BytesToVecAcc(bs, i, acc) ==
    IF i > Len(bs) THEN acc ELSE BytesToVecAcc(bs, i + 1, acc \o ByteBits[bs[i]])
BytesToVec(bs) == BytesToVecAcc(bs, 1, <<>>)
BytesToNat(bs) == Norm(BytesToVec(bs))
\* vector (length multiple of 8) -> big-endian bytes
VecToBytes(v) == [i \in 1..(Len(v) \div 8) |-> ToInt(SubSeq(v, 8 * i - 7, 8 * i))]
NatToBytes(b, nbytes) == VecToBytes(Pad(b, 8 * nbytes))

\* ---- endianness: the stream-order image of the w low bits of value b
\* BE streams carry fields most-significant bit first, LE streams least first.
Field(E, b, w) == IF E = "be" THEN Low(b, w) ELSE Rev(Low(b, w))
\* the natural carried by a stream-order field
UnField(E, s) == IF E = "be" THEN Norm(s) ELSE Norm(Rev(s))

\* ---- the layout contract of C01/C02: stream bit i (0-based) lives in byte
\* i \div 8, at bit 7 - (i % 8) (BE) or bit (i % 8) (LE).  ByteBits is MSB
\* first, so a BE byte contributes its bits as they are and an LE byte
\* reversed.  Nothing here mentions a word size.
ByteStream(E, v) == IF E = "be" THEN ByteBits[v] ELSE Rev(ByteBits[v])
StreamOfBytes(E, bs) ==
    [i \in 1..(8 * Len(bs)) |->
        LET v == bs[(i - 1) \div 8 + 1]  k == (i - 1) % 8
        IN  IF E = "be" THEN ByteBits[v][k + 1] ELSE ByteBits[v][8 - k]]
\* inverse, for streams whose length is a multiple of 8
BytesOfStream(E, s) ==
    [i \in 1..(Len(s) \div 8) |->
        LET g == SubSeq(s, 8 * i - 7, 8 * i) IN ToInt(IF E = "be" THEN g ELSE Rev(g))]

IsPrefixOf(p, s) == Len(p) <= Len(s) /\ SubSeq(s, 1, Len(p)) = p
=============================================================================
