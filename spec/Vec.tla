-------------------------------- MODULE Vec --------------------------------
(***************************************************************************)
(* Fixed-width machine words as MSB-first bit vectors, with the operations *)
(* the Rust code uses (shifts, rotates, or/and/not, casts, leading /       *)
(* trailing zeros).  A shift by the full width or more is what Rust        *)
(* rejects (panic with overflow checks, masked shift amount without):      *)
(* ShiftOk(x, k) names that side condition so the implementation-shaped    *)
(* models can assert it wherever the code performs a single shift.         *)
(***************************************************************************)
EXTENDS BitSeqs

VZero(w) == Zeros(w)
VOnes(w) == Ones(w)
VOne(w)  == Zeros(w - 1) \o <<1>>
VTop(w)  == <<1>> \o Zeros(w - 1)           \* ONE << (w - 1)

ShiftOk(x, k) == k >= 0 /\ k < Len(x)

\* mathematical shifts, defined for 0 <= k <= Len(x) (k = Len(x) gives zero)
Shl(x, k) == SubSeq(x, k + 1, Len(x)) \o Zeros(k)
Shr(x, k) == Zeros(k) \o SubSeq(x, 1, Len(x) - k)
RotL(x, k) == LET m == k % Len(x) IN SubSeq(x, m + 1, Len(x)) \o SubSeq(x, 1, m)
RotR(x, k) == LET m == k % Len(x) IN SubSeq(x, Len(x) - m + 1, Len(x)) \o SubSeq(x, 1, Len(x) - m)
Or(x, y)  == [i \in 1..Len(x) |-> IF x[i] = 1 \/ y[i] = 1 THEN 1 ELSE 0]
And(x, y) == [i \in 1..Len(x) |-> IF x[i] = 1 /\ y[i] = 1 THEN 1 ELSE 0]
Not(x)    == [i \in 1..Len(x) |-> 1 - x[i]]

\* `as' / cast / upcast / downcast between widths: keep the low bits, zero-extend
Cast(x, w) == IF Len(x) >= w THEN SubSeq(x, Len(x) - w + 1, Len(x)) ELSE Zeros(w - Len(x)) \o x

\* leading / trailing zeros (the full width for zero)
LeadZ(x) == FirstOneFrom(x, 1) - 1
TrailZ(x) == Len(x) - LastOneUpTo(x, Len(x))

\* (1 << n) - 1 in width w, n <= w
LowMask(w, n) == Zeros(w - n) \o Ones(n)

\* the value of a vector as a natural, and a natural as a vector
VNat(x) == Norm(x)
NatV(b, w) == Low(b, w)

\* stream-order image of a word as delivered to the backend after
\* to_be() / to_le(): a BE word shows its bits MSB first, an LE word LSB first
WordStream(E, x) == IF E = "be" THEN x ELSE Rev(x)
=============================================================================
