SPECIFICATION Spec
CONSTANT RetryWrites = TRUE
POSTCONDITION Accepted
CHECK_DEADLOCK FALSE
