---------------------------- MODULE WordBackend ----------------------------
(***************************************************************************)
(* The in-memory word streams: an array plus a cursor.                     *)
(*   kind "inf"    MemWordReader, zero-extended                            *)
(*        "strict" MemWordReader::new_strict                               *)
(*        "slice"  MemWordWriterSlice (fixed storage, read + write)        *)
(*        "vec"    MemWordWriterVec (growable storage, read + write)       *)
(* A backend is [kind, data, cur]; words are opaque tokens (only equality  *)
(* and the distinguished Zero matter).  Each step predicate relates the    *)
(* state before, the call, what it returned and the state after.           *)
(***************************************************************************)
EXTENDS Naturals, Sequences

CONSTANT Zero          \* the zero word

New(kind, data) == [kind |-> kind, data |-> data, cur |-> 0]

InRange(b) == b.cur < Len(b.data)

\* read_word
ReadStep(b, res, v, b2) ==
    IF InRange(b) THEN res = "ok" /\ v = b.data[b.cur + 1] /\ b2 = [b EXCEPT !.cur = @ + 1]
    ELSE IF b.kind = "inf" THEN res = "ok" /\ v = Zero /\ b2 = [b EXCEPT !.cur = @ + 1]
    ELSE res = "err" /\ b2 = b                       \* the cursor does not move

\* write_word (slice, vec)
WriteStep(b, v, res, b2) ==
    IF InRange(b) THEN res = "ok" /\ b2 = [b EXCEPT !.data[b.cur + 1] = v, !.cur = @ + 1]
    ELSE IF b.kind = "vec"
    THEN \* grows with zero fill up to the cursor, then stores
         /\ res = "ok"
         /\ b2 = [b EXCEPT !.data = [i \in 1..(b.cur + 1) |->
                                        IF i <= Len(b.data) THEN b.data[i] ELSE IF i = b.cur + 1 THEN v ELSE Zero],
                           !.cur = @ + 1]
    ELSE res = "err" /\ b2 = b

PosStep(b, ret) == ret = b.cur

\* set_word_pos: the zero-extended reader accepts any position; the others
\* reject positions beyond the end and leave the cursor unchanged
SetPosStep(b, p, res, b2) ==
    IF b.kind = "inf" \/ p <= Len(b.data) THEN res = "ok" /\ b2 = [b EXCEPT !.cur = p]
    ELSE res = "err" /\ b2 = b

LenStep(b, ret) == ret = Len(b.data)
\* the storage handed back by into_inner
InnerStep(b, data) == data = b.data

\* invariants of the design
CursorInv(b) == b.kind = "inf" \/ b.cur <= Len(b.data)
=============================================================================
