--------------------------- MODULE BufWriterImpl ---------------------------
(***************************************************************************)
(* Implementation-shaped model of BufBitWriter (src/impls/buf_bit_writer.rs)*)
(* One operator per method and endianness, one branch per code path, with  *)
(* the same guards and the same shift / or / rotate / cast expressions.    *)
(*                                                                         *)
(* State: s = [buf, space] - the one-word bit buffer (a W-vector) and      *)
(* space_left_in_buffer.  Each operator returns                            *)
(*   [buf, space, out, ret, bad]                                           *)
(* where out is the sequence of words handed to the backend (logical       *)
(* values, before to_be()/to_le()), ret the returned count and bad is TRUE *)
(* if a shift amount the code uses is out of range for its type (a panic   *)
(* with overflow checks, a masked shift without).                          *)
(*                                                                         *)
(* The refinement mapping to the abstract writer of BitStream is           *)
(*   pending bits = Valid(s)   (low W-space bits for BE, high for LE)      *)
(* and a step refines the abstract machine iff                             *)
(*   Valid(s) \o appended = Flatten(out) \o Valid(s')      (StepRefines).  *)
(***************************************************************************)
EXTENDS Vec

CONSTANTS W,      \* backend word width: 8, 16, 32, 64, 128
          E       \* "be" | "le"

St(buf, space) == [buf |-> buf, space |-> space]
Res(buf, space, out, ret, bad) == [buf |-> buf, space |-> space, out |-> out, ret |-> ret, bad |-> bad]

C(v) == Cast(v, W)                    \* u64 -> Word

\* ---------------------------------------------------------------- BE

\* buf_bit_writer.rs BitWrite<BE>::write_bits
WriteBitsBE(s, v, n) ==
    IF n < s.space
    THEN \* fast path: buffer <<= n; buffer |= value.cast() & !(MAX << n)
         Res(Or(Shl(s.buf, n), And(C(v), Not(Shl(VOnes(W), n)))),
             s.space - n, <<>>, n,
             ~ShiftOk(s.buf, n))
    ELSE \* spill
         LET b1    == Shl(Shl(s.buf, s.space - 1), 1)
             top   == Shr(Shl(v, 64 - n), 64 - s.space)            \* value << (64 - n) >> (64 - space)
             first == Or(b1, C(top))
             tw0   == n - s.space
             k     == tw0 \div W
             words == [i \in 1..k |-> C(Shr(v, tw0 - i * W))]      \* (value >> to_write).cast()
             tw    == tw0 - k * W
         IN  Res(C(v), W - tw, <<first>> \o words, n,
                 \/ ~ShiftOk(s.buf, s.space - 1)
                 \/ ~(64 - n >= 0 /\ 64 - n < 64)
                 \/ ~(64 - s.space >= 0 /\ 64 - s.space < 64))

\* BitWrite<BE>::write_unary
WriteUnaryBE(s, x) ==
    LET len == x + 1 IN
    IF len <= s.space
    THEN LET sp == s.space - len
             b  == Or(Shl(Shl(s.buf, x), 1), VOne(W))
         IN  IF sp = 0 THEN Res(b, W, <<b>>, len, ~ShiftOk(s.buf, x))
             ELSE Res(b, sp, <<>>, len, ~ShiftOk(s.buf, x))
    ELSE LET b1 == Shl(Shl(s.buf, s.space - 1), 1)
             x2 == x - s.space
             zs == [i \in 1..(x2 \div W) |-> VZero(W)]
             x3 == x2 % W
         IN  IF x3 = W - 1
             THEN Res(b1, W, <<b1>> \o zs \o <<VOne(W)>>, len, ~ShiftOk(s.buf, s.space - 1))
             ELSE Res(VOne(W), W - (x3 + 1), <<b1>> \o zs, len, ~ShiftOk(s.buf, s.space - 1))

\* flush_be
FlushBE(s) ==
    LET tf == W - s.space IN
    IF tf # 0
    THEN LET b == Shl(s.buf, s.space) IN Res(b, W, <<b>>, tf, ~ShiftOk(s.buf, s.space))
    ELSE Res(s.buf, s.space, <<>>, 0, FALSE)

\* ---------------------------------------------------------------- LE

WriteBitsLE(s, v, n) ==
    IF n < s.space
    THEN \* buffer >>= n; buffer |= (value.cast() & !(MAX << n)).rotate_right(n)
         Res(Or(Shr(s.buf, n), RotR(And(C(v), Not(Shl(VOnes(W), n))), n)),
             s.space - n, <<>>, n,
             ~ShiftOk(s.buf, n))
    ELSE LET b1    == Shr(Shr(s.buf, s.space - 1), 1)
             first == Or(b1, Shl(C(v), W - s.space))               \* value.cast() << (W - space)
             tw    == n - s.space
             v1    == Shr(Shr(v, s.space - 1), 1)                  \* value >> (space - 1) >> 1, on u64
             k     == tw \div W
             words == [i \in 1..k |-> C(Shr(v1, (i - 1) * W))]     \* value.cast(); value >>= W
             vk    == Shr(v1, Min2(64, k * W))
         IN  Res(RotR(C(vk), tw), W - (tw % W), <<first>> \o words, n,
                 \/ ~ShiftOk(s.buf, s.space - 1)
                 \/ ~ShiftOk(s.buf, W - s.space)
                 \/ ~(s.space - 1 < 64)
                 \/ (k > 0 /\ W >= 64))                             \* value >>= W must be a legal u64 shift

WriteUnaryLE(s, x) ==
    LET len == x + 1 IN
    IF len <= s.space
    THEN LET sp == s.space - len
             b  == Or(Shr(Shr(s.buf, x), 1), VTop(W))
         IN  IF sp = 0 THEN Res(b, W, <<b>>, len, ~ShiftOk(s.buf, x))
             ELSE Res(b, sp, <<>>, len, ~ShiftOk(s.buf, x))
    ELSE LET b1 == Shr(Shr(s.buf, s.space - 1), 1)
             x2 == x - s.space
             zs == [i \in 1..(x2 \div W) |-> VZero(W)]
             x3 == x2 % W
         IN  IF x3 = W - 1
             THEN Res(b1, W, <<b1>> \o zs \o <<VTop(W)>>, len, ~ShiftOk(s.buf, s.space - 1))
             ELSE Res(VTop(W), W - (x3 + 1), <<b1>> \o zs, len, ~ShiftOk(s.buf, s.space - 1))

FlushLE(s) ==
    LET tf == W - s.space IN
    IF tf # 0
    THEN LET b == Shr(s.buf, s.space) IN Res(b, W, <<b>>, tf, ~ShiftOk(s.buf, s.space))
    ELSE Res(s.buf, s.space, <<>>, 0, FALSE)

\* ---------------------------------------------------------------- both

WriteBits(s, v, n) == IF E = "be" THEN WriteBitsBE(s, v, n) ELSE WriteBitsLE(s, v, n)
WriteUnary(s, x)   == IF E = "be" THEN WriteUnaryBE(s, x) ELSE WriteUnaryLE(s, x)
Flush(s)           == IF E = "be" THEN FlushBE(s) ELSE FlushLE(s)

\* a sequence of calls, threading the state and concatenating the outputs
RECURSIVE Chain(_, _, _)
\* ops: sequence of [v, n]; acc: Res so far
Chain(acc, ops, i) ==
    IF i > Len(ops) THEN acc
    ELSE LET r == WriteBits(St(acc.buf, acc.space), ops[i].v, ops[i].n)
         IN  Chain(Res(r.buf, r.space, acc.out \o r.out, acc.ret + r.ret, acc.bad \/ r.bad), ops, i + 1)

\* the value read_bits(k) returns for the next k bits of a stream-order
\* source, as a clean u64
ReadAs64(src, p, k) == Pad(UnField(E, SubSeq(src, p + 1, p + k)), 64)

\* copy_from (optimised path; W > 64 falls back to 64-bit chunks).
\* src: stream-order bits supplied by the reader, n = Len(src)
CopyFrom(s, src) ==
    LET n == Len(src) IN
    IF W > 64
    THEN LET k == (n + 63) \div 64
             ops == [i \in 1..k |-> [v |-> ReadAs64(src, 64 * (i - 1), Min2(64, n - 64 * (i - 1))),
                                     n |-> Min2(64, n - 64 * (i - 1))]]
         IN  Chain(Res(s.buf, s.space, <<>>, 0, FALSE), ops, 1)
    ELSE IF n < s.space
    THEN LET r == C(ReadAs64(src, 0, n))
         IN  IF E = "be" THEN Res(Or(Shl(s.buf, n), r), s.space - n, <<>>, 0, ~ShiftOk(s.buf, n))
             ELSE Res(Or(Shr(s.buf, n), RotR(r, n)), s.space - n, <<>>, 0, ~ShiftOk(s.buf, n))
    ELSE LET r1 == C(ReadAs64(src, 0, s.space))
             first == IF E = "be" THEN Or(Shl(Shl(s.buf, s.space - 1), 1), r1)
                      ELSE Or(Shr(Shr(s.buf, s.space - 1), 1), RotR(r1, s.space))
             n1 == n - s.space
             k == n1 \div W
             words == [i \in 1..k |-> C(ReadAs64(src, s.space + (i - 1) * W, W))]
             n2 == n1 % W
             last == C(ReadAs64(src, s.space + k * W, n2))
         IN  Res(IF E = "be" THEN last ELSE RotR(last, n2), W - n2, <<first>> \o words, 0,
                 ~ShiftOk(s.buf, s.space - 1))

\* std::io::Write::write: chunks of 8 bytes as 64-bit writes, then the remainder
BytesWord(bs) == Pad(Norm(IF E = "be" THEN BytesToVec(bs) ELSE BytesToVec(Rev(bs))), 64)
IoWrite(s, bs) ==
    LET k == Len(bs) \div 8
        rem == Len(bs) % 8
        full == [i \in 1..k |-> [v |-> BytesWord(SubSeq(bs, 8 * i - 7, 8 * i)), n |-> 64]]
        ops == IF rem = 0 THEN full
               ELSE full \o <<[v |-> BytesWord(SubSeq(bs, 8 * k + 1, Len(bs))), n |-> 8 * rem]>>
    IN  Chain(Res(s.buf, s.space, <<>>, 0, FALSE), ops, 1)

\* ---------------------------------------------------------------- mapping

\* the valid (pending) bits of the buffer, in stream order
Valid(s) == IF E = "be" THEN SubSeq(s.buf, s.space + 1, W)
            ELSE Rev(SubSeq(s.buf, 1, W - s.space))

RECURSIVE FlattenWords(_, _)
FlattenWords(ws, i) == IF i > Len(ws) THEN <<>> ELSE WordStream(E, ws[i]) \o FlattenWords(ws, i + 1)

RepInv(s) == s.space >= 1 /\ s.space <= W /\ Len(s.buf) = W

\* one step refines the abstract writer appending A
StepRefines(s, r, A) ==
    /\ ~r.bad
    /\ RepInv(St(r.buf, r.space))
    /\ Valid(s) \o A = FlattenWords(r.out, 1) \o Valid(St(r.buf, r.space))
=============================================================================
