----------------------------- MODULE BitStream -----------------------------
(***************************************************************************)
(* The abstract sequential machine behind dsi-bitstream's public API.      *)
(* It knows nothing about buffers or words beyond the delivery granule:    *)
(*                                                                         *)
(*   a WRITER is [e, w, pend, cnt, dead]: endianness, backend word width,  *)
(*   the bits written but not yet delivered to the backend (stream order), *)
(*   and the number of bits written through it (for counting wrappers);    *)
(*                                                                         *)
(*   a READER is [src, pos, peeked, cnt, dead] over an immutable stream    *)
(*   (Codes!ByteStreamOf), a 0-based bit position, the width of the last   *)
(*   successful look-ahead (for skip-after-peek), a consumption counter.   *)
(*                                                                         *)
(* Every public call is one step, taken at the call's return.  Each step   *)
(* operator below is a predicate relating the object before the call, the  *)
(* call's arguments, everything the call made observable (result class,    *)
(* returned value, bytes handed to the backend, reported position) and the *)
(* object after the call.  Where the property leaves an outcome open       *)
(* (skipping past the end of a strict stream, ...) both outcomes satisfy   *)
(* the predicate.                                                          *)
(***************************************************************************)
EXTENDS Codes

\* Streams are immutable and can be long: a reader holds a handle and Src maps
\* the handle to the stream (Codes!ByteStreamOf), so that the data is not part
\* of the state.
CONSTANT Src(_)

\* ------------------------------------------------------------------ writers

\* room: how many more words the backend can take (-1: unbounded; a fixed slice: its length)
NewWriterCap(e, w, cap) == [e |-> e, w |-> w, pend |-> <<>>, cnt |-> 0, dead |-> FALSE, room |-> cap]
NewWriter(e, w) == NewWriterCap(e, w, -1)

\* Appending bits A: the backend receives D, which must be a whole number of
\* words and a prefix of everything pending; the rest stays pending.
\* (An implementation may deliver eagerly or lazily; the bytes are a pure
\* function of the bits either way.)
Appends(wr, A, D, wr2) ==
    LET t == wr.pend \o A
    IN  /\ Len(D) % wr.w = 0
        /\ IsPrefixOf(D, t)
        /\ (wr.room < 0 \/ Len(D) <= wr.room * wr.w)
        /\ wr2 = [wr EXCEPT !.pend = SubSeq(t, Len(D) + 1, Len(t)), !.cnt = @ + Len(A),
                            !.room = IF @ < 0 THEN @ ELSE @ - Len(D) \div wr.w]

\* A bounded backend (fixed slice) that cannot take all the whole words an operation
\* completes: the words that fit are delivered, in order and unaltered, and the call fails;
\* the writer is then dead.  (Write-side fault: nothing already delivered is lost or changed.)
Overflows(wr, A) == wr.room >= 0 /\ ((Len(wr.pend) + Len(A)) \div wr.w) > wr.room
FullStep(wr, A, res, D, wr2) ==
    /\ res = "err"
    /\ D = SubSeq(wr.pend \o A, 1, wr.room * wr.w)
    /\ wr2 = [wr EXCEPT !.dead = TRUE]

\* the library never keeps a full word pending
Eager(wr) == Len(wr.pend) < wr.w

\* fixed-width write: the n low bits of v; a build with argument checks
\* panics exactly when v has a bit set at or above n
Dirty(v, n) == Len(v) > n                      \* v a natural
WriteBitsStep(wr, v, n, checks, res, ret, D, wr2) ==
    IF checks /\ Dirty(v, n)
    THEN res = "panic"
    ELSE IF Overflows(wr, Field(wr.e, v, n)) THEN FullStep(wr, Field(wr.e, v, n), res, D, wr2)
    ELSE res = "ok" /\ ret = n /\ Appends(wr, Field(wr.e, v, n), D, wr2) /\ Eager(wr2)

WriteUnaryStep(wr, x, res, ret, D, wr2) ==
    IF Overflows(wr, EncUnary(x)) THEN FullStep(wr, EncUnary(x), res, D, wr2)
    ELSE res = "ok" /\ ret = ToInt(x) + 1 /\ Appends(wr, EncUnary(x), D, wr2) /\ Eager(wr2)

WriteCodeStep(wr, c, n, res, ret, D, wr2) ==
    LET cw == Enc(c, wr.e, n)
    IN  IF Overflows(wr, cw) THEN FullStep(wr, cw, res, D, wr2)
        ELSE res = "ok" /\ ret = Len(cw) /\ ret = CLen(c, n) /\ Appends(wr, cw, D, wr2) /\ Eager(wr2)

\* std::io::Write view: the bytes, in order, each as an 8-bit field
WriteBytesStep(wr, bs, res, ret, D, wr2) ==
    IF Overflows(wr, StreamOfBytes(wr.e, bs)) THEN FullStep(wr, StreamOfBytes(wr.e, bs), res, D, wr2)
    ELSE res = "ok" /\ ret = Len(bs) /\ Appends(wr, StreamOfBytes(wr.e, bs), D, wr2) /\ Eager(wr2)

\* flush / drop / into_inner: zero padding up to the next word boundary,
\* everything delivered, the number of pending bits reported; padding is not
\* "written through" the writer (the counter does not move); idempotent
PadLen(wr) == (wr.w - (Len(wr.pend) % wr.w)) % wr.w
FlushStep(wr, res, ret, D, wr2) ==
    IF wr.room = 0 /\ wr.pend # <<>>
    THEN res = "err" /\ D = <<>> /\ wr2 = [wr EXCEPT !.dead = TRUE]         \* the padded last word does not fit
    ELSE /\ res = "ok"
         /\ ret = Len(wr.pend)
         /\ D = wr.pend \o Zeros(PadLen(wr))
         /\ wr2 = [wr EXCEPT !.pend = <<>>, !.room = IF @ < 0 \/ wr.pend = <<>> THEN @ ELSE @ - 1]
\* closing does not report a count
CloseStep(wr, res, D, wr2) == \E ret \in {Len(wr.pend)} : FlushStep(wr, res, ret, D, wr2)

\* ------------------------------------------------------------------ readers

NewReader(h) == [src |-> h, pos |-> 0, peeked |-> 0, cnt |-> 0, dead |-> FALSE]

EOf(rd) == Src(rd.src).e
Adv(rd, n) == [rd EXCEPT !.pos = @ + n, !.peeked = 0, !.cnt = @ + n]
Kill(rd) == [rd EXCEPT !.dead = TRUE]

\* does [pos, pos+n) lie inside the data (always, for a zero-extended stream)
Inside(rd, n) == Avail(Src(rd.src), rd.pos, n)

\* a successful outcome with value and advance; an error where the data is short
\* `v' is the natural the call returned
ReadBitsStep(rd, n, res, v, rd2) ==
    IF Inside(rd, n)
    THEN res = "ok" /\ v = UnField(EOf(rd), Slice(Src(rd.src), rd.pos, n)) /\ rd2 = Adv(rd, n)
    ELSE IF n = 0 THEN (res = "ok" /\ v = <<>> /\ rd2 = Adv(rd, 0)) \/ (res = "err" /\ rd2 = Kill(rd))
    ELSE res = "err" /\ rd2 = Kill(rd)

\* look-ahead: same value, no advance, repeatable; remembers its width
PeekBitsStep(rd, n, res, v, rd2) ==
    IF Inside(rd, n)
    THEN res = "ok" /\ v = UnField(EOf(rd), Slice(Src(rd.src), rd.pos, n)) /\ rd2 = [rd EXCEPT !.peeked = n]
    ELSE res = "err" /\ rd2 = Kill(rd)

\* the primitive under the decoding tables: legal for k up to the width of
\* the immediately preceding successful look-ahead; counting wrappers must
\* count it like any other consumption
SkipAfterPeekStep(rd, k, res, rd2) ==
    k <= rd.peeked /\ res = "ok" /\ rd2 = Adv(rd, k)

\* skip: inside the data it must succeed; past the end of a strict stream
\* either outcome is allowed (no value depends on the missing bits)
SkipBitsStep(rd, n, res, rd2) ==
    IF Inside(rd, n)
    THEN res = "ok" /\ rd2 = Adv(rd, n)
    ELSE (res = "ok" /\ rd2 = Adv(rd, n)) \/ (res = "err" /\ rd2 = Kill(rd))

ReadUnaryStep(rd, res, v, rd2) ==
    LET d == DecUnary(Src(rd.src), rd.pos)
    IN  IF IsShort(d) THEN res = "err" /\ rd2 = Kill(rd)
        ELSE res = "ok" /\ v = d.v /\ rd2 = Adv(rd, d.p - rd.pos)

ReadCodeStep(rd, c, res, v, rd2) ==
    LET d == Dec(c, EOf(rd), Src(rd.src), rd.pos)
    IN  IF IsShort(d) THEN res = "err" /\ rd2 = Kill(rd)
        ELSE res = "ok" /\ v = d.v /\ rd2 = Adv(rd, d.p - rd.pos)

\* std::io::Read view: the next 8k stream bits grouped in stream order
ReadBytesStep(rd, k, res, ret, bs, rd2) ==
    IF Inside(rd, 8 * k)
    THEN /\ res = "ok" /\ ret = k
         /\ bs = BytesOfStream(EOf(rd), Slice(Src(rd.src), rd.pos, 8 * k))
         /\ rd2 = Adv(rd, 8 * k)
    ELSE res = "err" /\ rd2 = Kill(rd)

\* seek: any target inside the data (end included) must work and makes the
\* reader indistinguishable from a fresh one that consumed p bits; beyond the
\* end of a strict stream either outcome
SetBitPosStep(rd, p, res, rd2) ==
    LET ok == res = "ok" /\ rd2 = [rd EXCEPT !.pos = p, !.peeked = 0]
    IN  IF Src(rd.src).inf \/ p <= SLen(Src(rd.src)) THEN ok ELSE ok \/ (res = "err" /\ rd2 = Kill(rd))

\* bulk copy of n bits into a writer of the same endianness.  It fails when the source runs
\* out (strict stream) or when the destination backend is full; the error blames the side that
\* actually ran out (side = "read" | "write"); after an error both objects are dead.
CopyStep(rd, wr, n, res, side, D, rd2, wr2) ==
    LET S == Src(rd.src)
        avail == IF Inside(rd, n) THEN n ELSE (IF SLen(S) > rd.pos THEN SLen(S) - rd.pos ELSE 0)
        A == Slice(S, rd.pos, avail)
        wfull == Overflows(wr, A)
    IN  IF Inside(rd, n) /\ ~wfull
        THEN /\ res = "ok"
             /\ rd2 = Adv(rd, n)
             /\ Appends(wr, A, D, wr2) /\ Eager(wr2)
        ELSE /\ res = "err" /\ rd2 = Kill(rd) /\ wr2 = [wr EXCEPT !.dead = TRUE]
             /\ (side = "read" => ~Inside(rd, n))
             /\ (side = "write" => wfull)
             /\ side \in {"read", "write"}

\* the position a seekable reader reports
PosOK(rd, reported) == reported < 0 \/ reported = rd.pos
=============================================================================
