---------------------------- MODULE MC_BufWriter ----------------------------
(***************************************************************************)
(* Model checking of the implementation-shaped writer: from every          *)
(* representative buffer state (every space_left, three regimes of garbage *)
(* in the invalid part, three patterns in the valid part) every operation  *)
(* of the alphabet must (a) keep the representation invariant, (b) use no  *)
(* out-of-range shift, (c) return the documented count and (d) refine the  *)
(* abstract writer: Valid(s) \o appended = Flatten(out) \o Valid(s').      *)
(* Depth > 1 composes operations from the states actually produced.        *)
(***************************************************************************)
EXTENDS BufWriterImpl, TLC

CONSTANTS Depth,        \* how many operations to compose
          Full          \* TRUE: every n and unary value; FALSE: boundary sets

VARIABLES st, ok, d, last
vars == <<st, ok, d, last>>

Alt(n, first) == [i \in 1..n |-> (i + first) % 2]
Pat(n, p) == CASE p = 1 -> Ones(n) [] p = 2 -> Zeros(n) [] OTHER -> Alt(n, 0)

MkBuf(s, vp, gp) == IF E = "be" THEN Pat(s, gp) \o Pat(W - s, vp) ELSE Pat(W - s, vp) \o Pat(s, gp)

InitStates == {St(MkBuf(s, vp, gp), s) : s \in 1..W, vp \in 1..3, gp \in 1..3}

\* 64-bit argument patterns: zero, all ones (dirty high bits), 0xA5.., a fixed random word
V64s == {Zeros(64), Ones(64), BytesToVec(<<165,165,165,165,165,165,165,165>>),
         BytesToVec(<<222,173,190,239,1,35,69,103>>)}

Ns == IF Full THEN 0..64
      ELSE ({0, 1, 2, 7, 8, 9, 15, 16, 17, 31, 32, 33, 62, 63, 64} \cup {W - 1, W, W + 1}) \cap (0..64)
Xs == IF Full THEN 0..(3 * W + 1)
      ELSE {0, 1, 2, W - 2, W - 1, W, W + 1, 2 * W - 2, 2 * W - 1, 2 * W, 2 * W + 1, 3 * W - 1, 3 * W, 3 * W + 1}
CopyNs == IF Full THEN 0..(2 * W + 65)
          ELSE {0, 1, 2, W - 1, W, W + 1, 63, 64, 65, 2 * W - 1, 2 * W, 2 * W + 1, 2 * W + 63, 2 * W + 64, 2 * W + 65}
IoLens == IF Full THEN 0..40 ELSE {0, 1, 2, 3, 7, 8, 9, 15, 16, 17, 23, 24, 25, 31, 32, 33, 40}

SrcPat(n, p) == IF p = 1 THEN Ones(n) ELSE [i \in 1..n |-> IF i % 3 = 0 THEN 0 ELSE 1]
BytesPat(k) == [i \in 1..k |-> (37 * i + 11) % 256]

Init == st \in InitStates /\ ok = TRUE /\ d = 0 /\ last = <<"init">>

Apply(r, A, retOk, lbl) ==
    /\ st' = St(r.buf, r.space)
    /\ ok' = (retOk /\ StepRefines(st, r, A))
    /\ d' = d + 1
    /\ last' = lbl

DoWriteBits == \E v \in V64s, n \in Ns :
    LET r == WriteBits(st, v, n)
    IN  Apply(r, Field(E, VNat(v), n), r.ret = n, <<"write_bits", n>>)

DoWriteUnary == \E x \in Xs :
    LET r == WriteUnary(st, x)
    IN  Apply(r, Zeros(x) \o <<1>>, r.ret = x + 1, <<"write_unary", x>>)

PadOf(s) == (s.space % W)       \* bits of padding a flush appends: W - pending, or 0 when empty
DoFlush ==
    LET r == Flush(st)
        r2 == Flush(St(r.buf, r.space))
    IN  /\ Apply(r, Zeros(PadOf(st)), r.ret = W - st.space /\ r.space = W, <<"flush">>)
        \* idempotent: a second flush delivers nothing and reports 0
        /\ r2.out = <<>> /\ r2.ret = 0 /\ r2.space = W

DoCopyFrom == \E n \in CopyNs, p \in 1..2 :
    LET src == SrcPat(n, p)
        r == CopyFrom(st, src)
    IN  Apply(r, src, TRUE, <<"copy_from", n>>)

DoIoWrite == \E k \in IoLens :
    LET bs == BytesPat(k)
        r == IoWrite(st, bs)
    IN  Apply(r, StreamOfBytes(E, bs), r.ret = 8 * k, <<"io_write", k>>)

Next == d < Depth /\ (DoWriteBits \/ DoWriteUnary \/ DoFlush \/ DoCopyFrom \/ DoIoWrite)

Spec == Init /\ [][Next]_vars

Refines == ok
RepOK == RepInv(st)
\* the fill level is the whole hidden state the abstract machine cares about
View == <<st, d>>
=============================================================================
