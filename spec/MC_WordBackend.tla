--------------------------- MODULE MC_WordBackend ---------------------------
(***************************************************************************)
(* The whole state graph of the four word streams over small arrays:       *)
(* cursor invariants, determinism of every call (exactly one outcome       *)
(* satisfies the step predicate), strict kinds never move on error.        *)
(* Also the generator: one shortest history per state (VIEW = state).      *)
(***************************************************************************)
EXTENDS WordBackend, TLC, Json, FiniteSets
Cardinality0(S) == Cardinality(S)

CONSTANTS Kind, MaxLen, MaxCur
Tokens == {"z", "a", "b"}
ZeroTok == "z"

VARIABLES b, hist
vars == <<b, hist>>

Arrays == UNION {[1..n -> Tokens] : n \in 0..MaxLen}

Init == \E d \in Arrays : b = New(Kind, d) /\ hist = <<[op |-> "new", data |-> d]>>

Outcomes == {"ok", "err"}

DoRead == \E res \in Outcomes, v \in Tokens, b2 \in {[b EXCEPT !.cur = @ + 1], b} :
            ReadStep(b, res, v, b2) /\ b' = b2 /\ hist' = Append(hist, [op |-> "read"])
CanWrite == Kind \in {"slice", "vec"}
DoWrite == CanWrite /\ \E v \in Tokens \ {ZeroTok}, res \in Outcomes :
            \E b2 \in {b, [b EXCEPT !.data[b.cur + 1] = v, !.cur = @ + 1],
                       [b EXCEPT !.data = [i \in 1..(b.cur + 1) |-> IF i <= Len(b.data) THEN b.data[i] ELSE IF i = b.cur + 1 THEN v ELSE ZeroTok], !.cur = @ + 1]} :
               WriteStep(b, v, res, b2) /\ b' = b2 /\ hist' = Append(hist, [op |-> "write", v |-> v])
DoSetPos == \E p \in 0..MaxCur, res \in Outcomes : \E b2 \in {b, [b EXCEPT !.cur = p]} :
            SetPosStep(b, p, res, b2) /\ b' = b2 /\ hist' = Append(hist, [op |-> "setpos", p |-> p])

Next == b.cur < MaxCur /\ Len(b.data) <= MaxLen + 1 /\ (DoRead \/ DoWrite \/ DoSetPos)
Spec == Init /\ [][Next]_vars

Inv == CursorInv(b)
\* every call has exactly one outcome
Deterministic ==
    /\ Cardinality0({res \in Outcomes : \E v \in Tokens : \E b2 \in {[b EXCEPT !.cur = @ + 1], b} : ReadStep(b, res, v, b2)}) = 1
    /\ Cardinality0({v \in Tokens : \E b2 \in {[b EXCEPT !.cur = @ + 1], b} : ReadStep(b, "ok", v, b2)}) <= 1
    /\ \A p \in 0..MaxCur : Cardinality0({res \in Outcomes : \E b2 \in {b, [b EXCEPT !.cur = p]} : SetPosStep(b, p, res, b2)}) = 1

View == b
Emit == PrintT(<<"PATH", ToJson([kind |-> Kind, path |-> hist])>>)
=============================================================================
