---------------------------- MODULE MC_BitReader ----------------------------
(* every bit index x every operation of the unbuffered reader against the abstract reader *)
EXTENDS BitReaderImpl, TLC
CONSTANTS Pat, NW
DataConst == SubSeq([i \in 1..(64 * NW) |->
                CASE Pat = 1 -> 1
                  [] Pat = 2 -> IF i % 67 = 0 THEN 1 ELSE 0
                  [] OTHER   -> ((i * i * 7 + i * 13 + (i \div 3)) \div 5) % 2], 1, 64 * NW)
VARIABLES st, ok, d, last
vars == <<st, ok, d, last>>
Init == /\ \E i \in 0..(Len(Data) + 70), c \in 0..(NW + 1) : st = St(i, c)
        /\ ok = TRUE /\ d = 0 /\ last = <<"init">>
Set(r, good, lbl) == st' = St(r.idx, r.cur) /\ ok' = good /\ d' = d + 1 /\ last' = lbl
RECURSIVE FirstOne(_)
FirstOne(p) == IF p >= Len(Data) THEN -1 ELSE IF Data[p + 1] = 1 THEN p ELSE FirstOne(p + 1)
DoRead == \E n \in 0..64 :
    LET r == ReadBits(st, n)  p == st.idx
    IN  Set(r, IF InData(p, n) THEN ~r.err /\ ~r.bad /\ r.val = Expect(p, n, 64) /\ r.idx = p + n
               ELSE (r.err \/ n = 0), <<"read_bits", n>>)
DoPeek == \E n \in 1..32 :
    LET r == PeekBits(st, n)  p == st.idx
    IN  Set(r, IF InData(p, n) THEN ~r.err /\ ~r.bad /\ r.val = Expect(p, n, 32) /\ r.idx = p ELSE r.err, <<"peek_bits", n>>)
DoSkip == \E n \in {0, 1, 63, 64, 65, 130} :
    LET r == SkipBits(st, n) IN Set(r, r.idx = st.idx + n /\ ~r.err, <<"skip_bits", n>>)
DoUnary ==
    LET p == st.idx  q == FirstOne(p) IN
    /\ (q >= 0 \/ Strict)
    /\ LET r == ReadUnary(st)
       IN  Set(r, IF q >= 0 THEN ~r.err /\ r.val = q - p /\ r.idx = q + 1 ELSE r.err, <<"read_unary">>)
Next == d < 1 /\ (DoRead \/ DoPeek \/ DoSkip \/ DoUnary)
Spec == Init /\ [][Next]_vars
Refines == ok
=============================================================================
