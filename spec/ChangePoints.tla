---------------------------- MODULE ChangePoints ----------------------------
(***************************************************************************)
(* FindChangePoints (src/utils/find_change.rs): exponential search from    *)
(* the last change point, then binary search in the last step.  Modelled   *)
(* at an arbitrary value width B (the code uses 64): MaxV = 2^B - 1 plays  *)
(* u64::MAX; arithmetic that would exceed MaxV is an overflow.  The        *)
(* function is a monotone step function given by its steps                 *)
(* <<<<pos, val>>, ...>> (increasing pos > 0, increasing val) over the     *)
(* initial value V0.                                                       *)
(*                                                                         *)
(* --algorithm below is written out as TLA+ actions: one per loop          *)
(* iteration of the code, so that non-termination is a behaviour TLC sees. *)
(***************************************************************************)
EXTENDS Naturals, Sequences, TLC

CONSTANTS B,          \* value width
          StepSet,    \* the functions explored: a set of step sequences <<[pos, val], ...>>
          V0,         \* f(0)
          StopOnOverflow   \* TRUE: repaired tree (checked_mul -> None); FALSE: step wraps to 0 (release) as pinned

RECURSIVE P2(_)
P2(k) == IF k = 0 THEN 1 ELSE 2 * P2(k - 1)
MaxV == P2(B) - 1

VARIABLES Steps, cur, prev, started, pc, step, left, right, out, done, overflow
vars == <<Steps, cur, prev, started, pc, step, left, right, out, done, overflow>>

F(x) == LET idx == {i \in 1..Len(Steps) : Steps[i].pos <= x}
        IN  IF idx = {} THEN V0 ELSE Steps[CHOOSE i \in idx : \A j \in idx : j <= i].val

\* the change points: 0 and every step position
CP == <<[pos |-> 0, val |-> V0]>> \o Steps

Init == /\ Steps \in StepSet
        /\ cur = 0 /\ prev = 0 /\ started = FALSE /\ pc = "next" /\ step = 1 /\ left = 0 /\ right = 0
        /\ out = <<>> /\ done = FALSE /\ overflow = FALSE

\* next() is called
CallFirst == /\ pc = "next" /\ ~done /\ ~started
             /\ started' = TRUE /\ prev' = F(0) /\ out' = Append(out, [pos |-> 0, val |-> F(0)])
             /\ UNCHANGED <<Steps, cur, pc, step, left, right, done, overflow>>
CallNext == /\ pc = "next" /\ ~done /\ started
            /\ step' = 1 /\ pc' = "exp"
            /\ UNCHANGED <<Steps, cur, prev, started, left, right, out, done, overflow>>
\* one iteration of the exponential loop
Exp == /\ pc = "exp"
       /\ IF MaxV - cur <= step
          THEN /\ done' = TRUE /\ pc' = "next" /\ UNCHANGED <<step, left, right, overflow>>       \* return None
          ELSE IF F(cur + step) # prev
          THEN /\ left' = cur + step \div 2 /\ right' = cur + step /\ pc' = "bin"
               /\ UNCHANGED <<step, done, overflow>>
          ELSE IF 2 * step > MaxV
          THEN \* step *= 2 overflows
               IF StopOnOverflow THEN /\ done' = TRUE /\ pc' = "next" /\ UNCHANGED <<step, left, right, overflow>>
               ELSE /\ step' = 0 /\ overflow' = TRUE /\ UNCHANGED <<pc, left, right, done>>       \* wraps: loops forever
          ELSE /\ step' = 2 * step /\ UNCHANGED <<pc, left, right, done, overflow>>
       /\ UNCHANGED <<Steps, cur, prev, started, out>>
\* one iteration of the binary search
Bin == /\ pc = "bin"
       /\ IF left < right
          THEN LET mid == left + (right - left) \div 2
               IN  /\ IF F(mid) = prev THEN left' = mid + 1 /\ right' = right ELSE right' = mid /\ left' = left
                   /\ UNCHANGED <<cur, prev, out, pc>>
          ELSE /\ cur' = left /\ prev' = F(left) /\ out' = Append(out, [pos |-> left, val |-> F(left)])
               /\ pc' = "next" /\ UNCHANGED <<left, right>>
       /\ UNCHANGED <<Steps, started, step, done, overflow>>

Next == CallFirst \/ CallNext \/ Exp \/ Bin
Spec == Init /\ [][Next]_vars /\ WF_vars(Next)

\* ---- safety: what has been yielded is a prefix of the change points, in order
IsPrefix(p, s) == Len(p) <= Len(s) /\ SubSeq(s, 1, Len(p)) = p
YieldsOK == IsPrefix(out, CP)
\* when the iterator ends, every change point up to 2^(B-1) has been yielded
Half == P2(B - 1)
NoMiss == done => \A i \in 1..Len(CP) : CP[i].pos <= Half => i <= Len(out)
NoOverflow == ~overflow
\* ---- liveness: the iterator ends
Terminates == <>done
=============================================================================
