--------------------------- MODULE Trace_Adapter ---------------------------
(* Trace validation of WordAdapter over a faulty byte stream: every call the *)
(* adapter makes into the byte stream, and every call / return of the adapter *)
(* itself, must be a step of WordAdapterIO; the sink must hold what the spec  *)
(* says; LossFree / ReadExact are evaluated after every step.                 *)
EXTENDS WordAdapterIO, TLC, Json, IOUtils

Rec == ndJsonDeserialize(IOEnv.TRACE)
N == Len(Rec)
VARIABLES l, ws, rs
vars == <<l, ws, rs>>
Ev == Rec[l]
Is(op) == l <= N /\ Rec[l].op = op
Step == l' = l + 1
Put(f, k, v) == [x \in (DOMAIN f) \cup {k} |-> IF x = k THEN v ELSE f[x]]

Init == l = 1 /\ ws = <<>> /\ rs = <<>>
Reset == Is("reset") /\ Step /\ ws' = <<>> /\ rs' = <<>>
NewWr == Is("aw_new_w") /\ Step /\ ws' = Put(ws, Ev.o, NewW) /\ UNCHANGED rs
NewRd == Is("aw_new_r") /\ Step /\ rs' = Put(rs, Ev.o, NewR(Ev.src, Ev.wb)) /\ UNCHANGED ws

WCall == /\ Is("aw_write_call") /\ Step /\ UNCHANGED rs
         /\ LET w == ws[Ev.o]  w2 == [w EXCEPT !.rem = Ev.word, !.cur = Ev.word, !.st = "busy"]
            IN  WCallStep(w, Ev.word, w2) /\ ws' = [ws EXCEPT ![Ev.o] = w2]

WStates == {"idle", "busy", "single", "mustfail", "failed"}
IoWrite == /\ Is("io_write") /\ Step /\ UNCHANGED rs
           /\ LET w == ws[Ev.o]
              IN  \E st2 \in WStates :
                    LET w2 == IF Ev.out = "bytes"
                              THEN [w EXCEPT !.sink = @ \o SubSeq(Ev.buf, 1, Ev.k), !.rem = SubSeq(Ev.buf, Ev.k + 1, Len(Ev.buf)), !.st = st2]
                              ELSE [w EXCEPT !.st = st2]
                    IN  /\ EnvWriteStep(w, Ev.buf, Ev.out, Ev.k, w2)
                        /\ LossFree(w2)
                        /\ ws' = [ws EXCEPT ![Ev.o] = w2]

WRet == /\ Is("aw_write_ret") /\ Step /\ UNCHANGED rs
        /\ LET w == ws[Ev.o]
           IN  \E w2 \in {[w EXCEPT !.acked = @ \o w.cur, !.rem = <<>>, !.st = "idle"], [w EXCEPT !.st = "failed"]} :
                 /\ WRetStep(w, Ev.res, w2)
                 /\ LossFree(w2)
                 /\ ws' = [ws EXCEPT ![Ev.o] = w2]

\* the bytes the real sink holds
Sink == Is("aw_sink") /\ Step /\ UNCHANGED <<ws, rs>> /\ Ev.bytes = ws[Ev.o].sink

RCall == /\ Is("aw_read_call") /\ Step /\ UNCHANGED ws
         /\ LET r == rs[Ev.o]  r2 == [r EXCEPT !.got = <<>>, !.st = "busy"]
            IN  RCallStep(r, r2) /\ rs' = [rs EXCEPT ![Ev.o] = r2]
IoRead == /\ Is("io_read") /\ Step /\ UNCHANGED ws
          /\ LET r == rs[Ev.o]
             IN  \E st2 \in {"busy", "mustfail"} :
                   LET r2 == IF Ev.out = "bytes" THEN [r EXCEPT !.got = @ \o Ev.data, !.rpos = @ + Len(Ev.data), !.st = st2]
                             ELSE [r EXCEPT !.st = st2]
                   IN  /\ EnvReadStep(r, Ev.req, Ev.out, Ev.data, r2)
                       /\ ReadExact(r2)
                       /\ rs' = [rs EXCEPT ![Ev.o] = r2]
RRet == /\ Is("aw_read_ret") /\ Step /\ UNCHANGED ws
        /\ LET r == rs[Ev.o]
           IN  \E r2 \in {[r EXCEPT !.out = @ \o r.got, !.st = "idle"], [r EXCEPT !.st = "failed"]} :
                 /\ RRetStep(r, Ev.res, Ev.word, r2)
                 /\ ReadExact(r2)
                 /\ rs' = [rs EXCEPT ![Ev.o] = r2]

\* word_pos / set_word_pos over a seekable byte stream
WPos == Is("aw_pos") /\ Step /\ UNCHANGED <<ws, rs>> /\ Ev.ret = WordPosOf(Ev.bytepos, Ev.wb)
WSetPos == Is("aw_setpos") /\ Step /\ UNCHANGED <<ws, rs>> /\ Ev.res = "ok" /\ Ev.bytepos = Ev.p * Ev.wb

Next == Reset \/ NewWr \/ NewRd \/ WCall \/ IoWrite \/ WRet \/ Sink \/ RCall \/ IoRead \/ RRet \/ WPos \/ WSetPos
Spec == Init /\ [][Next]_vars
Accepted ==
    LET d == TLCGet("stats").diameter
    IN  IF d - 1 = N THEN TRUE
        ELSE PrintT(<<"REJECTED", d, IF d <= N THEN Rec[d] ELSE "eof">>) /\ FALSE
=============================================================================
