--------------------------- MODULE BufReaderImpl ---------------------------
(***************************************************************************)
(* Implementation-shaped model of BufBitReader (src/impls/buf_bit_reader.rs)*)
(* over a word backend (MemWordReader zero-extended / strict, or any other *)
(* WordRead + WordSeek with array-and-cursor behaviour).                   *)
(*                                                                         *)
(* One operator per method and endianness, one branch per code path, same  *)
(* guards, same shift / or / cast expressions.                             *)
(*                                                                         *)
(* State s = [buf, bib, wpos]: the two-word bit buffer (a 2W-vector),      *)
(* bits_in_buffer, the backend cursor (in words).  Operators return        *)
(*   [buf, bib, wpos, val, err, bad, wr]                                   *)
(* val: the returned value (a 64- or 2W-vector, or an int for unary),      *)
(* err: the backend failed (state as the code leaves it), bad: a shift     *)
(* amount / subtraction out of range or a failed debug assertion,          *)
(* wr: the write_bits calls issued by copy_to, as <<[v, n], ...>>.         *)
(*                                                                         *)
(* Refinement mapping: pos = wpos * W - bib, and the valid window of the   *)
(* buffer holds stream bits [pos, pos + bib), everything else zero (BufOK).*)
(***************************************************************************)
EXTENDS Vec

CONSTANTS W,        \* backend word width: 8, 16, 32, 64
          E,        \* "be" | "le"
          Data,     \* stream-order bits of the backend's words; Len(Data) % W = 0
          Strict    \* TRUE: reading a word past the end fails; FALSE: zero extension

BB == 2 * W
NWords == Len(Data) \div W

St(buf, bib, wpos) == [buf |-> buf, bib |-> bib, wpos |-> wpos]
Res(buf, bib, wpos, val, err, bad) ==
    [buf |-> buf, bib |-> bib, wpos |-> wpos, val |-> val, err |-> err, bad |-> bad, wr |-> <<>>]
Fail(s) == Res(s.buf, s.bib, s.wpos, <<>>, TRUE, FALSE)

\* the logical value of backend word i (0-based) after to_be() / to_le()
WordAt(i) == IF i < NWords
             THEN LET b == SubSeq(Data, i * W + 1, (i + 1) * W) IN IF E = "be" THEN b ELSE Rev(b)
             ELSE VZero(W)
CanRead(wpos) == ~Strict \/ wpos < NWords

Up(w) == Cast(w, BB)          \* upcast to the buffer type
U64(x) == Cast(x, 64)

\* ------------------------------------------------------------------ BE

RefillBE(s) ==
    IF ~CanRead(s.wpos) THEN Fail(s)
    ELSE LET bib2 == s.bib + W
         IN  Res(Or(s.buf, Shl(Up(WordAt(s.wpos)), BB - bib2)), bib2, s.wpos + 1, <<>>, FALSE,
                 ~(BB - s.bib >= W))

PeekBE(s, n) ==
    LET r == IF n > s.bib THEN RefillBE(s) ELSE Res(s.buf, s.bib, s.wpos, <<>>, FALSE, FALSE)
    IN  IF r.err THEN r
        ELSE [r EXCEPT !.val = Shr(r.buf, BB - n),
                       !.bad = r.bad \/ ~(n > 0 /\ n <= BB) \/ ~(n <= r.bib)]

SkipAfterPeekBE(s, n) ==
    Res(Shl(s.buf, Min2(n, BB)), s.bib - n, s.wpos, <<>>, FALSE, ~(n <= s.bib) \/ ~ShiftOk(s.buf, n))

ReadBitsBE(s, n) ==
    IF n <= s.bib
    THEN Res(Shl(s.buf, n), s.bib - n, s.wpos, U64(Shr(Shr(s.buf, BB - n - 1), 1)), FALSE,
             ~ShiftOk(s.buf, n) \/ ~ShiftOk(s.buf, BB - n - 1))
    ELSE LET res0 == U64(Shr(Shr(s.buf, BB - 1 - s.bib), 1))
             n0 == n - s.bib
             k == IF n0 > W THEN (n0 - 1) \div W ELSE 0          \* words consumed by the while loop
             n1 == n0 - k * W                                    \* 1..W
             RECURSIVE Acc(_, _)
             Acc(res, i) == IF i >= k THEN res
                            ELSE Acc(Or(Shl(res, Min2(W, 64)), U64(WordAt(s.wpos + i))), i + 1)
             resk == Acc(res0, 0)
             wlast == WordAt(s.wpos + k)
             bib2 == W - n1
             fin == U64(Shr(U64(wlast), bib2))
             result == Or(Shl(Shl(resk, n1 - 1), 1), fin)
             canAll == ~Strict \/ s.wpos + k < NWords
         IN  IF ~canAll
             THEN \* the code leaves the buffer untouched and the cursor after the words it could read
                  Res(s.buf, s.bib, Min2(s.wpos + k + 1, Max2(s.wpos, NWords)), <<>>, TRUE, FALSE)
             ELSE Res(Shl(Shl(Up(wlast), BB - bib2 - 1), 1), bib2, s.wpos + k + 1, result, FALSE,
                      \/ (k > 0 /\ W >= 64)
                      \/ ~(bib2 < 64)
                      \/ ~ShiftOk(s.buf, BB - 1 - s.bib))

\* first backend word at or after i that is not zero; NWords if none
RECURSIVE NextNonZero(_)
NextNonZero(i) == IF i >= NWords \/ WordAt(i) # VZero(W) THEN i ELSE NextNonZero(i + 1)

ReadUnaryBE(s) ==
    LET zeros == LeadZ(s.buf) IN
    IF zeros < s.bib
    THEN Res(Shl(Shl(s.buf, zeros), 1), s.bib - (zeros + 1), s.wpos, zeros, FALSE, ~ShiftOk(s.buf, zeros))
    ELSE LET j == NextNonZero(s.wpos)
         IN  IF j >= NWords
             THEN \* strict: error; zero-extended: the loop never ends (val = -1, never explored)
                  [Fail(s) EXCEPT !.wpos = Max2(s.wpos, NWords), !.val = IF Strict THEN <<>> ELSE -1]
             ELSE LET w == WordAt(j)
                      z == LeadZ(w)
                  IN  Res(Shl(Shl(Up(w), W + z), 1), W - z - 1, j + 1,
                          s.bib + (j - s.wpos) * W + z, FALSE, ~ShiftOk(s.buf, W + z))

SkipBitsBE(s, n) ==
    IF n <= s.bib
    THEN Res(Shl(s.buf, n), s.bib - n, s.wpos, <<>>, FALSE, ~ShiftOk(s.buf, n))
    ELSE LET n0 == n - s.bib
             k == IF n0 > W THEN (n0 - 1) \div W ELSE 0
             n1 == n0 - k * W
             bib2 == W - n1
             canAll == ~Strict \/ s.wpos + k < NWords
         IN  IF ~canAll THEN Res(s.buf, s.bib, Min2(s.wpos + k + 1, Max2(s.wpos, NWords)), <<>>, TRUE, FALSE)
             ELSE Res(Shl(Shl(Up(WordAt(s.wpos + k)), BB - 1 - bib2), 1), bib2, s.wpos + k + 1, <<>>, FALSE, FALSE)

SetBitPosBE(s, p) ==
    LET wp == p \div W  off == p % W IN
    IF Strict /\ wp > NWords THEN Fail(s)
    ELSE IF off = 0 THEN Res(VZero(BB), 0, wp, <<>>, FALSE, FALSE)
    ELSE IF ~CanRead(wp) THEN Res(VZero(BB), 0, wp, <<>>, TRUE, FALSE)
    ELSE Res(Shl(Up(WordAt(wp)), BB - (W - off)), W - off, wp + 1, <<>>, FALSE, FALSE)

\* copy_to (after the repairs): excess over 64 buffered bits first, then the
\* buffered bits, whole words, and the tail; wr = the write_bits calls
CopyToBE(s, n) ==
    LET pre == IF n > 64 /\ s.bib > 64 THEN ReadBitsBE(s, s.bib - 64) ELSE Res(s.buf, s.bib, s.wpos, <<>>, FALSE, FALSE)
        wr0 == IF n > 64 /\ s.bib > 64 THEN <<[v |-> pre.val, n |-> s.bib - 64]>> ELSE <<>>
        nA == IF n > 64 /\ s.bib > 64 THEN n - (s.bib - 64) ELSE n
        fb == Min2(nA, pre.bib)
        rot == RotL(pre.buf, fb)
        v1 == U64(rot)
        buf1 == Shl(Shr(rot, fb), fb)
        nB == nA - fb
        wr1 == wr0 \o <<[v |-> v1, n |-> fb]>>
    IN  IF nB = 0
        THEN [Res(buf1, pre.bib - fb, pre.wpos, <<>>, FALSE, pre.bad \/ fb > 64) EXCEPT !.wr = wr1]
        ELSE LET k == IF nB > W THEN (nB - 1) \div W ELSE 0
                 n1 == nB - k * W
                 words == [i \in 1..k |-> [v |-> U64(WordAt(pre.wpos + i - 1)), n |-> W]]
                 wlast == WordAt(pre.wpos + k)
                 bib2 == W - n1
                 canAll == ~Strict \/ pre.wpos + k < NWords
             IN  IF ~canAll THEN [Fail(s) EXCEPT !.wr = wr1]
                 ELSE [Res(Shl(Shl(Up(wlast), BB - bib2 - 1), 1), bib2, pre.wpos + k + 1, <<>>, FALSE,
                           pre.bad \/ fb > 64)
                       EXCEPT !.wr = wr1 \o words \o <<[v |-> U64(Shr(wlast, bib2)), n |-> n1]>>]

\* ------------------------------------------------------------------ LE

RefillLE(s) ==
    IF ~CanRead(s.wpos) THEN Fail(s)
    ELSE Res(Or(s.buf, Shl(Up(WordAt(s.wpos)), s.bib)), s.bib + W, s.wpos + 1, <<>>, FALSE,
             ~(BB - s.bib >= W))

PeekLE(s, n) ==
    LET r == IF n > s.bib THEN RefillLE(s) ELSE Res(s.buf, s.bib, s.wpos, <<>>, FALSE, FALSE)
    IN  IF r.err THEN r
        ELSE [r EXCEPT !.val = Shr(Shl(r.buf, BB - n), BB - n),
                       !.bad = r.bad \/ ~(n > 0 /\ n <= BB) \/ ~(n <= r.bib)]

SkipAfterPeekLE(s, n) ==
    Res(Shr(s.buf, Min2(n, BB)), s.bib - n, s.wpos, <<>>, FALSE, ~(n <= s.bib) \/ ~ShiftOk(s.buf, n))

ReadBitsLE(s, n) ==
    IF n <= s.bib
    THEN Res(Shr(s.buf, n), s.bib - n, s.wpos, U64(And(s.buf, LowMask(BB, n))), FALSE, ~ShiftOk(s.buf, n))
    ELSE LET res0 == U64(s.buf)
             \* while n > W + bits_in_res: one more word
             k == IF n > W + s.bib THEN (n - s.bib - 1) \div W ELSE 0
             RECURSIVE Acc(_, _)
             Acc(res, i) == IF i >= k THEN res
                            ELSE Acc(Or(res, Shl(U64(WordAt(s.wpos + i)), Min2(64, s.bib + i * W))), i + 1)
             resk == Acc(res0, 0)
             bir == s.bib + k * W
             n1 == n - bir                                          \* 1..W
             wlast == WordAt(s.wpos + k)
             bib2 == W - n1
             sh == 64 - n1
             fin == Shr(Shl(U64(wlast), sh), sh)
             result == Or(resk, Shl(fin, Min2(64, bir)))
             canAll == ~Strict \/ s.wpos + k < NWords
         IN  IF ~canAll THEN Res(s.buf, s.bib, Min2(s.wpos + k + 1, Max2(s.wpos, NWords)), <<>>, TRUE, FALSE)
             ELSE Res(Shr(Up(wlast), n1), bib2, s.wpos + k + 1, result, FALSE,
                      \/ ~(bir < 64)
                      \/ ~(sh >= 0 /\ sh < 64))

ReadUnaryLE(s) ==
    LET zeros == TrailZ(s.buf) IN
    IF zeros < s.bib
    THEN Res(Shr(Shr(s.buf, zeros), 1), s.bib - (zeros + 1), s.wpos, zeros, FALSE, ~ShiftOk(s.buf, zeros))
    ELSE LET j == NextNonZero(s.wpos)
         IN  IF j >= NWords
             THEN [Fail(s) EXCEPT !.wpos = Max2(s.wpos, NWords), !.val = IF Strict THEN <<>> ELSE -1]
             ELSE LET w == WordAt(j)
                      z == TrailZ(w)
                  IN  Res(Shr(Shr(Up(w), z), 1), W - z - 1, j + 1,
                          s.bib + (j - s.wpos) * W + z, FALSE, FALSE)

SkipBitsLE(s, n) ==
    IF n <= s.bib
    THEN Res(Shr(s.buf, n), s.bib - n, s.wpos, <<>>, FALSE, ~ShiftOk(s.buf, n))
    ELSE LET n0 == n - s.bib
             k == IF n0 > W THEN (n0 - 1) \div W ELSE 0
             n1 == n0 - k * W
             canAll == ~Strict \/ s.wpos + k < NWords
         IN  IF ~canAll THEN Res(s.buf, s.bib, Min2(s.wpos + k + 1, Max2(s.wpos, NWords)), <<>>, TRUE, FALSE)
             ELSE Res(Shr(Up(WordAt(s.wpos + k)), n1), W - n1, s.wpos + k + 1, <<>>, FALSE, FALSE)

SetBitPosLE(s, p) ==
    LET wp == p \div W  off == p % W IN
    IF Strict /\ wp > NWords THEN Fail(s)
    ELSE IF off = 0 THEN Res(VZero(BB), 0, wp, <<>>, FALSE, FALSE)
    ELSE IF ~CanRead(wp) THEN Res(VZero(BB), 0, wp, <<>>, TRUE, FALSE)
    ELSE Res(Shr(Up(WordAt(wp)), off), W - off, wp + 1, <<>>, FALSE, FALSE)

CopyToLE(s, n) ==
    LET pre == IF n > 64 /\ s.bib > 64 THEN ReadBitsLE(s, s.bib - 64) ELSE Res(s.buf, s.bib, s.wpos, <<>>, FALSE, FALSE)
        wr0 == IF n > 64 /\ s.bib > 64 THEN <<[v |-> pre.val, n |-> s.bib - 64]>> ELSE <<>>
        nA == IF n > 64 /\ s.bib > 64 THEN n - (s.bib - 64) ELSE n
        fb == Min2(nA, pre.bib)
        v1 == U64(pre.buf)
        buf1 == Shr(pre.buf, fb)
        nB == nA - fb
        wr1 == wr0 \o <<[v |-> v1, n |-> fb]>>
    IN  IF nB = 0
        THEN [Res(buf1, pre.bib - fb, pre.wpos, <<>>, FALSE, pre.bad \/ fb > 64) EXCEPT !.wr = wr1]
        ELSE LET k == IF nB > W THEN (nB - 1) \div W ELSE 0
                 n1 == nB - k * W
                 words == [i \in 1..k |-> [v |-> U64(WordAt(pre.wpos + i - 1)), n |-> W]]
                 wlast == WordAt(pre.wpos + k)
                 canAll == ~Strict \/ pre.wpos + k < NWords
             IN  IF ~canAll THEN [Fail(s) EXCEPT !.wr = wr1]
                 ELSE [Res(Shr(Up(wlast), n1), W - n1, pre.wpos + k + 1, <<>>, FALSE, pre.bad \/ fb > 64)
                       EXCEPT !.wr = wr1 \o words \o <<[v |-> U64(wlast), n |-> n1]>>]

\* ------------------------------------------------------------------ both

Refill(s)           == IF E = "be" THEN RefillBE(s) ELSE RefillLE(s)
Peek(s, n)          == IF E = "be" THEN PeekBE(s, n) ELSE PeekLE(s, n)
SkipAfterPeek(s, n) == IF E = "be" THEN SkipAfterPeekBE(s, n) ELSE SkipAfterPeekLE(s, n)
ReadBits(s, n)      == IF E = "be" THEN ReadBitsBE(s, n) ELSE ReadBitsLE(s, n)
ReadUnary(s)        == IF E = "be" THEN ReadUnaryBE(s) ELSE ReadUnaryLE(s)
SkipBits(s, n)      == IF E = "be" THEN SkipBitsBE(s, n) ELSE SkipBitsLE(s, n)
SetBitPos(s, p)     == IF E = "be" THEN SetBitPosBE(s, p) ELSE SetBitPosLE(s, p)
CopyTo(s, n)        == IF E = "be" THEN CopyToBE(s, n) ELSE CopyToLE(s, n)
BitPos(s)           == s.wpos * W - s.bib

\* ------------------------------------------------------------------ mapping

Pos(s) == s.wpos * W - s.bib
\* stream bit i (0-based), zero beyond the data
DBit(i) == IF i < Len(Data) THEN Data[i + 1] ELSE 0
DSlice(p, n) == [i \in 1..n |-> DBit(p + i - 1)]

\* the buffer a state at (wpos, bib) must hold
WindowBuf(wpos, bib) ==
    LET win == DSlice(wpos * W - bib, bib)
    IN  IF E = "be" THEN win \o Zeros(BB - bib) ELSE Zeros(BB - bib) \o Rev(win)

BufOK(s) == /\ s.bib >= 0 /\ s.bib < BB /\ s.bib <= s.wpos * W
            /\ s.buf = WindowBuf(s.wpos, s.bib)

\* the value of n stream bits from p as the library returns it (vector of width w)
Expect(p, n, w) == Pad(UnField(E, DSlice(p, n)), w)

\* bits that exist before the end of a strict stream
InData(p, n) == ~Strict \/ p + n <= Len(Data)

\* the bits a sequence of write_bits calls appends, in stream order
RECURSIVE WrBits(_, _)
WrBits(wr, i) == IF i > Len(wr) THEN <<>>
                 ELSE Field(E, VNat(Cast(wr[i].v, 64)), wr[i].n) \o WrBits(wr, i + 1)
\* clean arguments (what a `checks' build demands)
WrClean(wr) == \A i \in 1..Len(wr) : wr[i].n <= 64 /\ Len(VNat(wr[i].v)) <= wr[i].n
=============================================================================
