SPECIFICATION Spec
CONSTANT MaxSmall = 40
