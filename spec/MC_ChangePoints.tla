--------------------------- MODULE MC_ChangePoints ---------------------------
(* every monotone step function with at most MaxSteps steps at width B *)
EXTENDS ChangePoints
CONSTANTS MaxSteps
RECURSIVE Combs(_, _)
Combs(S, k) == IF k = 0 THEN {<<>>} ELSE UNION {{<<x>> \o t : t \in Combs({y \in S : y > x}, k - 1)} : x \in S}
\* values: V0 + i at the i-th step
AllSteps == {[i \in 1..Len(ps) |-> [pos |-> ps[i], val |-> V0 + i]] : ps \in UNION {Combs(1..MaxV, k) : k \in 0..MaxSteps}}
=============================================================================
