--------------------------- MODULE WordAdapterIO ---------------------------
(***************************************************************************)
(* WordAdapter over a std::io byte stream whose calls may do anything the  *)
(* std::io contracts allow: a write accepts k bytes with 0 <= k <= len     *)
(* (k = 0 is reported by write_all as an error), is interrupted (retried), *)
(* or fails; a read returns k bytes (k = 0: end of file), is interrupted   *)
(* or fails.  One step per call into the byte stream and one per call /    *)
(* return of the adapter method, so that the real adapter's calls can be   *)
(* checked one by one (Trace_Adapter) and all fault schedules explored     *)
(* (MC_Adapter).                                                           *)
(*                                                                         *)
(* A writer is [sink, acked, rem, cur, st]: bytes the stream accepted,     *)
(* bytes of the words acknowledged with Ok, bytes of the current word not  *)
(* yet accepted, the current word, and st in                               *)
(*   "idle" | "busy" | "single" | "mustfail" | "failed".                   *)
(* A reader is [src, rpos, got, out, st].                                  *)
(***************************************************************************)
EXTENDS Naturals, Sequences

CONSTANT RetryWrites    \* TRUE: write_word = write_all (repaired tree); FALSE: one write, count ignored (pinned tree)

IsPrefix(p, s) == Len(p) <= Len(s) /\ SubSeq(s, 1, Len(p)) = p

NewW == [sink |-> <<>>, acked |-> <<>>, rem |-> <<>>, cur |-> <<>>, st |-> "idle"]

\* write_word(word) is called
WCallStep(w, word, w2) == w.st = "idle" /\ w2 = [w EXCEPT !.rem = word, !.cur = word, !.st = "busy"]

\* the adapter calls Write::write(buf): it must pass exactly the bytes not yet
\* accepted; the environment picks the outcome
EnvWriteStep(w, buf, out, k, w2) ==
    /\ w.st = "busy" /\ w.rem # <<>> /\ buf = w.rem
    /\ CASE out = "bytes" ->
              /\ k <= Len(buf)
              /\ w2 = [w EXCEPT !.sink = @ \o SubSeq(buf, 1, k),
                                !.rem = SubSeq(buf, k + 1, Len(buf)),
                                !.st = IF k = 0 THEN "mustfail"           \* write_all reports WriteZero
                                       ELSE IF ~RetryWrites THEN "single"  \* returns Ok whatever k was
                                       ELSE "busy"]
         [] out = "int"   -> (IF RetryWrites THEN w2 = w ELSE w2 = [w EXCEPT !.st = "mustfail"])
         [] out = "fail"  -> w2 = [w EXCEPT !.st = "mustfail"]

\* write_word returns
WRetStep(w, res, w2) ==
    \/ /\ res = "ok"
       /\ (w.st = "busy" /\ w.rem = <<>>) \/ w.st = "single"
       /\ w2 = [w EXCEPT !.acked = @ \o w.cur, !.rem = <<>>, !.st = "idle"]
    \/ /\ res = "err" /\ w.st = "mustfail" /\ w2 = [w EXCEPT !.st = "failed"]

\* Loss-free: as long as no call reported an error the byte stream holds
\* exactly the acknowledged words (plus the accepted part of the word in
\* flight); after an error, the acknowledged words and a proper prefix of
\* the failing word: nothing dropped silently, duplicated or reordered.
LossFree(w) ==
    /\ w.st = "idle" => w.sink = w.acked
    /\ IsPrefix(w.acked, w.sink)
    /\ w.st # "idle" => IsPrefix(w.sink, w.acked \o w.cur)

---------------------------------------------------------------------------
NewR(src, wb) == [src |-> src, wb |-> wb, rpos |-> 0, got |-> <<>>, out |-> <<>>, st |-> "idle"]

RCallStep(r, r2) == r.st = "idle" /\ r2 = [r EXCEPT !.got = <<>>, !.st = "busy"]
\* the adapter calls Read::read on a buffer of req bytes: exactly what is missing
EnvReadStep(r, req, out, data, r2) ==
    /\ r.st = "busy" /\ Len(r.got) < r.wb /\ req = r.wb - Len(r.got)
    /\ CASE out = "bytes" ->
              /\ Len(data) <= req /\ Len(data) <= Len(r.src) - r.rpos
              /\ data = SubSeq(r.src, r.rpos + 1, r.rpos + Len(data))
              /\ r2 = [r EXCEPT !.got = @ \o data, !.rpos = @ + Len(data),
                                !.st = IF data = <<>> THEN "mustfail" ELSE "busy"]   \* read_exact: UnexpectedEof
         [] out = "int"  -> r2 = r
         [] out = "fail" -> r2 = [r EXCEPT !.st = "mustfail"]
RRetStep(r, res, word, r2) ==
    \/ /\ res = "ok" /\ r.st = "busy" /\ Len(r.got) = r.wb /\ word = r.got
       /\ r2 = [r EXCEPT !.out = @ \o r.got, !.st = "idle"]
    \/ /\ res = "err" /\ r.st = "mustfail" /\ r2 = [r EXCEPT !.st = "failed"]

\* the words returned are exactly the consecutive words of the source
ReadExact(r) == /\ r.out = SubSeq(r.src, 1, Len(r.out))
                /\ r.st = "idle" => r.rpos = Len(r.out)
                /\ r.rpos >= Len(r.out)

\* word positions over a seekable stream at byte position p, wb bytes per word
WordPosOf(p, wb) == (p + wb - 1) \div wb
=============================================================================
