------------------------------- MODULE Codes -------------------------------
(***************************************************************************)
(* The codebook: for each instantaneous code supported by dsi-bitstream,   *)
(* the codeword of a value (Enc), an independently written prefix decoder  *)
(* (Dec) and the closed-form length (CLen).  Written from the module       *)
(* documentation of src/codes/*.rs and the papers cited there, not from    *)
(* the code paths.                                                         *)
(*                                                                         *)
(* A code is a record [f, k, b]: family name, small integer parameter and  *)
(* (Golomb / minimal binary) a natural parameter as a bit sequence.        *)
(* Values are naturals (normalized MSB-first bit sequences, see BitSeqs).  *)
(* Codewords are bit sequences in STREAM order.  E is "be" or "le".        *)
(***************************************************************************)
EXTENDS BitSeqs
LOCAL INSTANCE SequencesExt

Code(f, k, b) == [f |-> f, k |-> k, b |-> b]
CUnary   == Code("unary", 0, <<>>)
CGamma   == Code("gamma", 0, <<>>)
CDelta   == Code("delta", 0, <<>>)
COmega   == Code("omega", 0, <<>>)
CVByteBe == Code("vbyte_be", 0, <<>>)
CVByteLe == Code("vbyte_le", 0, <<>>)
CZeta(k)      == Code("zeta", k, <<>>)
CPi(k)        == Code("pi", k, <<>>)
CRice(k)      == Code("rice", k, <<>>)
CExpGolomb(k) == Code("exp_golomb", k, <<>>)
CGolomb(b)    == Code("golomb", 0, b)
CMinBin(u)    == Code("minimal_binary", 0, u)

Families == {"unary", "gamma", "delta", "omega", "zeta", "pi", "rice",
             "exp_golomb", "golomb", "minimal_binary", "vbyte_be", "vbyte_le"}

---------------------------------------------------------------------------
\* Encoders

\* x zeros followed by a one; x is a natural small enough to be written out
EncUnary(x) == Zeros(ToInt(x)) \o <<1>>

\* m = n + 1 without its most significant bit, as a (Len(m)-1)-bit field
TailField(E, m) == Field(E, m, Len(m) - 1)

EncGamma(E, n) == LET m == Inc(n) IN Zeros(Len(m) - 1) \o <<1>> \o TailField(E, m)

EncDelta(E, n) == LET m == Inc(n) IN EncGamma(E, FromInt(Len(m) - 1)) \o TailField(E, m)

\* omega: recursive blocks, each the binary representation of the length of
\* the next minus one; a final 0.  In LE streams each block (which starts
\* with a 1) is rotated left by one, so that its 1 is the lowest bit of the
\* field and is met first in the stream.
OmegaBlock(E, m) ==
    IF E = "be" THEN m                               \* MSB first, as is
    ELSE <<1>> \o Rev(SubSeq(m, 2, Len(m)))          \* rotl1, then LSB first
RECURSIVE OmegaBlocks(_, _)
OmegaBlocks(E, m) == IF Len(m) <= 1 THEN <<>>       \* m <= 1
                     ELSE OmegaBlocks(E, FromInt(Len(m) - 1)) \o OmegaBlock(E, m)
EncOmega(E, n) == OmegaBlocks(E, Inc(n)) \o <<0>>

\* minimal binary code of x in [0, u): with l = floor(log2 u) and
\* limit = 2^(l+1) - u, the first `limit' values take l bits, the others
\* l + 1 bits (codeword x + limit); in LE streams the extra (lowest) bit
\* comes last.
MinBinLimit(u) == Sub(Pow2(Len(u)), u)
EncMinBin(E, x, u) ==
    LET l == Len(u) - 1  limit == MinBinLimit(u)
    IN  IF Lt(x, limit) THEN Field(E, x, l)
        ELSE LET t == Add(x, limit)
             IN  Field(E, ShiftR(t, 1), l) \o <<IF t = <<>> THEN 0 ELSE t[Len(t)]>>

\* zeta_k: h = floor(log2(n+1) / k) in unary, then the minimal binary code of
\* n + 1 - 2^(hk) in the interval of size 2^((h+1)k) - 2^(hk).  The library
\* documents one deviation: when 2^((h+1)k) does not fit in 64 bits the
\* interval is cut at 2^64.
ZetaBound(h, k) ==
    IF (h + 1) * k <= 64 THEN Ones(k) \o Zeros(h * k)                 \* 2^((h+1)k) - 2^(hk)
    ELSE Ones(64 - h * k) \o Zeros(h * k)                              \* 2^64 - 2^(hk)
ZetaBoundFits(n, k) == LET h == (Len(Inc(n)) - 1) \div k IN (h + 1) * k <= 64
EncZeta(E, n, k) ==
    LET m == Inc(n)  h == (Len(m) - 1) \div k
    IN  Zeros(h) \o <<1>> \o EncMinBin(E, Sub(m, Pow2(h * k)), ZetaBound(h, k))

EncRice(E, n, k) == EncUnary(ShiftR(n, k)) \o Field(E, n, k)

EncGolomb(E, n, b) == LET qr == DivMod(n, b) IN EncUnary(qr[1]) \o EncMinBin(E, qr[2], b)

EncExpGolomb(E, n, k) == EncGamma(E, ShiftR(n, k)) \o Field(E, n, k)

\* streamlined pi_k: Rice_k of floor(log2(n+1)), then n+1 without its top bit
EncPi(E, n, k) == LET m == Inc(n) IN EncRice(E, FromInt(Len(m) - 1), k) \o TailField(E, m)

\* VByte: the complete ("bijective") 7-bit-group code.  Groups are defined
\* on byte strings; the BE variant has the most significant group first,
\* LE the least significant first; continuation flag is the high bit.
RECURSIVE VByteGroups(_)      \* least significant group first, ints 0..127
VByteGroups(n) == LET lo == ToInt(Low(n, 7))  hi == ShiftR(n, 7)
                  IN  IF hi = <<>> THEN <<lo>> ELSE <<lo>> \o VByteGroups(Dec1(hi))
VByteBytesLe(n) == LET g == VByteGroups(n)
                   IN  [i \in 1..Len(g) |-> IF i < Len(g) THEN 128 + g[i] ELSE g[i]]
VByteBytesBe(n) == LET g == Rev(VByteGroups(n))
                   IN  [i \in 1..Len(g) |-> IF i < Len(g) THEN 128 + g[i] ELSE g[i]]
\* a byte is written as an 8-bit field
BytesAsFields(E, bs) == StreamOfBytes(E, bs)

Enc(c, E, n) ==
    CASE c.f = "unary"          -> EncUnary(n)
      [] c.f = "gamma"          -> EncGamma(E, n)
      [] c.f = "delta"          -> EncDelta(E, n)
      [] c.f = "omega"          -> EncOmega(E, n)
      [] c.f = "zeta"           -> EncZeta(E, n, c.k)
      [] c.f = "pi"             -> EncPi(E, n, c.k)
      [] c.f = "rice"           -> EncRice(E, n, c.k)
      [] c.f = "exp_golomb"     -> EncExpGolomb(E, n, c.k)
      [] c.f = "golomb"         -> EncGolomb(E, n, c.b)
      [] c.f = "minimal_binary" -> EncMinBin(E, n, c.b)
      [] c.f = "vbyte_be"       -> BytesAsFields(E, VByteBytesBe(n))
      [] c.f = "vbyte_le"       -> BytesAsFields(E, VByteBytesLe(n))

---------------------------------------------------------------------------
\* Closed-form lengths (ints; callers keep them below 2^30)

LenGamma(n) == 2 * (Len(Inc(n)) - 1) + 1
LenDelta(n) == LET l == Len(Inc(n)) - 1 IN l + LenGamma(FromInt(l))
RECURSIVE LenOmegaRec(_)
LenOmegaRec(m) == IF Len(m) <= 1 THEN 1 ELSE LenOmegaRec(FromInt(Len(m) - 1)) + Len(m)
LenOmega(n) == LenOmegaRec(Inc(n))
LenMinBin(x, u) == IF Lt(x, MinBinLimit(u)) THEN Len(u) - 1 ELSE Len(u)
LenZeta(n, k) == LET m == Inc(n)  h == (Len(m) - 1) \div k
                 IN  h + 1 + LenMinBin(Sub(m, Pow2(h * k)), ZetaBound(h, k))
LenRice(n, k) == ToInt(ShiftR(n, k)) + 1 + k
LenGolomb(n, b) == LET qr == DivMod(n, b) IN ToInt(qr[1]) + 1 + LenMinBin(qr[2], b)
LenExpGolomb(n, k) == LenGamma(ShiftR(n, k)) + k
LenPi(n, k) == LET l == Len(Inc(n)) - 1 IN LenRice(FromInt(l), k) + l
\* VByte: one byte below 2^7, two below 2^7 + 2^14, ...
RECURSIVE VByteLenFrom(_, _, _)
VByteLenFrom(n, bytes, thr) ==          \* thr = 2^7 + ... + 2^(7 bytes)
    IF Lt(n, thr) THEN bytes ELSE VByteLenFrom(n, bytes + 1, Add(thr, Pow2(7 * (bytes + 1))))
LenVByte(n) == 8 * VByteLenFrom(n, 1, Pow2(7))

CLen(c, n) ==
    CASE c.f = "unary"          -> ToInt(n) + 1
      [] c.f = "gamma"          -> LenGamma(n)
      [] c.f = "delta"          -> LenDelta(n)
      [] c.f = "omega"          -> LenOmega(n)
      [] c.f = "zeta"           -> LenZeta(n, c.k)
      [] c.f = "pi"             -> LenPi(n, c.k)
      [] c.f = "rice"           -> LenRice(n, c.k)
      [] c.f = "exp_golomb"     -> LenExpGolomb(n, c.k)
      [] c.f = "golomb"         -> LenGolomb(n, c.b)
      [] c.f = "minimal_binary" -> LenMinBin(n, c.b)
      [] c.f = "vbyte_be"       -> LenVByte(n)
      [] c.f = "vbyte_le"       -> LenVByte(n)

---------------------------------------------------------------------------
\* Prefix decoders.  A stream is given by an accessor: S is a record
\* [bits |-> sequence, inf |-> BOOLEAN]; beyond Len(bits) an infinite
\* stream reads zeros and a finite one is Short.  Positions are 0-based.
\* Every decoder returns either Short or [v |-> natural, p |-> new position].

Short == [short |-> TRUE]
IsShort(r) == "short" \in DOMAIN r
Ok(v, p) == [v |-> v, p |-> p]

\* a stream is either [bits |-> bit sequence, inf] or, for long immutable
\* images, [bytes |-> byte sequence, e |-> endianness, inf] read in place
\* through the layout contract (BitSeqs!StreamOfBytes), without copying
SLen(S) == IF "bits" \in DOMAIN S THEN Len(S.bits) ELSE 8 * Len(S.bytes)
RawBit(S, i) ==                                             \* 0-based, i < SLen(S)
    IF "bits" \in DOMAIN S THEN S.bits[i + 1]
    ELSE LET v == S.bytes[i \div 8 + 1]  k == i % 8
         IN  IF S.e = "be" THEN ByteBits[v][k + 1] ELSE ByteBits[v][8 - k]
Avail(S, p, n) == S.inf \/ p + n <= SLen(S)
BitAt(S, i) == IF i < SLen(S) THEN RawBit(S, i) ELSE 0       \* 0-based
Slice(S, p, n) == [i \in 1..n |-> BitAt(S, p + i - 1)]

\* n-bit field at p
DecField(E, S, p, n) ==
    IF ~Avail(S, p, n) THEN Short ELSE Ok(UnField(E, Slice(S, p, n)), p + n)

\* position of the first 1 at or after p; -1 if there is none before the end
\* of a finite stream.  On an infinite stream with an all-zero tail the search
\* does not terminate in the library either; callers never ask.
NonZero(b) == b # 0
\* first one inside byte v at or after in-byte stream offset k (0..7), 8 if none
FirstInByte(e, v, k) ==
    LET bits == IF e = "be" THEN ByteBits[v] ELSE Rev(ByteBits[v])
        j == IF k > 7 THEN 0 ELSE SelectInSubSeq(bits, k + 1, 8, IsOne)
    IN  IF j = 0 THEN 8 ELSE j - 1
FirstOnePos(S, p) ==
    IF p >= SLen(S) THEN -1
    ELSE IF "bits" \in DOMAIN S
    THEN LET k == SelectInSubSeq(S.bits, p + 1, Len(S.bits), IsOne) IN IF k = 0 THEN -1 ELSE k - 1
    ELSE LET b0 == p \div 8
             f0 == FirstInByte(S.e, S.bytes[b0 + 1], p % 8)
         IN  IF f0 < 8 THEN 8 * b0 + f0
             ELSE IF b0 + 2 > Len(S.bytes) THEN -1
             ELSE LET b1 == SelectInSubSeq(S.bytes, b0 + 2, Len(S.bytes), NonZero)
                  IN  IF b1 = 0 THEN -1 ELSE 8 * (b1 - 1) + FirstInByte(S.e, S.bytes[b1], 0)
DecUnary(S, p) == LET q == FirstOnePos(S, p)
                  IN  IF q < 0 THEN Short ELSE Ok(FromInt(q - p), q + 1)

\* value = 2^len + field - 1, i.e. "1 followed by the field", minus one
OnePlus(E, S, p, len) ==
    LET f == DecField(E, S, p, len)
    IN  IF IsShort(f) THEN Short ELSE Ok(Dec1(<<1>> \o Pad(f.v, len)), f.p)

DecGamma(E, S, p) ==
    LET u == DecUnary(S, p)
    IN  IF IsShort(u) THEN Short ELSE OnePlus(E, S, u.p, ToInt(u.v))

DecDelta(E, S, p) ==
    LET g == DecGamma(E, S, p)
    IN  IF IsShort(g) THEN Short ELSE OnePlus(E, S, g.p, ToInt(g.v))

\* omega: n starts at 1; while the next bit is 1, the next n + 1 bits are a
\* block giving the new n; stop on a 0 bit; value n - 1.
OmegaUnblock(E, blk) ==     \* stream-order block -> natural
    IF E = "be" THEN blk ELSE <<1>> \o Rev(SubSeq(blk, 2, Len(blk)))
RECURSIVE DecOmegaFrom(_, _, _, _)
DecOmegaFrom(E, S, p, n) ==
    IF ~Avail(S, p, 1) THEN Short
    ELSE IF BitAt(S, p) = 0 THEN Ok(Dec1(n), p + 1)
    ELSE LET w == ToInt(n) + 1
         IN  IF ~Avail(S, p, w) THEN Short
             ELSE DecOmegaFrom(E, S, p + w, OmegaUnblock(E, Slice(S, p, w)))
DecOmega(E, S, p) == DecOmegaFrom(E, S, p, <<1>>)

DecMinBin(E, S, p, u) ==
    LET l == Len(u) - 1  limit == MinBinLimit(u)
        f == DecField(E, S, p, l)
    IN  IF IsShort(f) THEN Short
        ELSE IF Lt(f.v, limit) THEN f
        ELSE IF ~Avail(S, f.p, 1) THEN Short
        ELSE Ok(Sub(Norm(Pad(f.v, l) \o <<BitAt(S, f.p)>>), limit), f.p + 1)

DecZeta(E, S, p, k) ==
    LET u == DecUnary(S, p)
    IN  IF IsShort(u) THEN Short
        ELSE LET h == ToInt(u.v)
                 r == DecMinBin(E, S, u.p, ZetaBound(h, k))
             IN  IF IsShort(r) THEN Short
                 ELSE Ok(Dec1(Add(Pow2(h * k), r.v)), r.p)

DecRice(E, S, p, k) ==
    LET u == DecUnary(S, p)
    IN  IF IsShort(u) THEN Short
        ELSE LET f == DecField(E, S, u.p, k)
             IN  IF IsShort(f) THEN Short
                 ELSE Ok(Norm(u.v \o Pad(f.v, k)), f.p)

DecGolomb(E, S, p, b) ==
    LET u == DecUnary(S, p)
    IN  IF IsShort(u) THEN Short
        ELSE LET r == DecMinBin(E, S, u.p, b)
             IN  IF IsShort(r) THEN Short ELSE Ok(Add(Mul(u.v, b), r.v), r.p)

DecExpGolomb(E, S, p, k) ==
    LET g == DecGamma(E, S, p)
    IN  IF IsShort(g) THEN Short
        ELSE LET f == DecField(E, S, g.p, k)
             IN  IF IsShort(f) THEN Short
                 ELSE Ok(Norm(g.v \o Pad(f.v, k)), f.p)

DecPi(E, S, p, k) ==
    LET r == DecRice(E, S, p, k)
    IN  IF IsShort(r) THEN Short ELSE OnePlus(E, S, r.p, ToInt(r.v))

\* VByte BE: v = g1; for each further group: v = (v + 1) * 128 + g
RECURSIVE DecVByteBeFrom(_, _, _, _)
DecVByteBeFrom(E, S, p, acc) ==
    LET f == DecField(E, S, p, 8)
    IN  IF IsShort(f) THEN Short
        ELSE LET byte == Pad(f.v, 8)
                 v == Norm(acc \o SubSeq(byte, 2, 8))
             IN  IF byte[1] = 0 THEN Ok(v, f.p)
                 ELSE DecVByteBeFrom(E, S, f.p, Inc(v))
\* VByte LE: v = sum of g_i * 128^i plus 128 + 128^2 + ... for each continuation
RECURSIVE DecVByteLeFrom(_, _, _, _, _)
DecVByteLeFrom(E, S, p, acc, shift) ==
    LET f == DecField(E, S, p, 8)
    IN  IF IsShort(f) THEN Short
        ELSE LET byte == Pad(f.v, 8)
                 v == Add(acc, ShiftL(Norm(SubSeq(byte, 2, 8)), shift))
             IN  IF byte[1] = 0 THEN Ok(v, f.p)
                 ELSE DecVByteLeFrom(E, S, f.p, Add(v, Pow2(shift + 7)), shift + 7)

Dec(c, E, S, p) ==
    CASE c.f = "unary"          -> DecUnary(S, p)
      [] c.f = "gamma"          -> DecGamma(E, S, p)
      [] c.f = "delta"          -> DecDelta(E, S, p)
      [] c.f = "omega"          -> DecOmega(E, S, p)
      [] c.f = "zeta"           -> DecZeta(E, S, p, c.k)
      [] c.f = "pi"             -> DecPi(E, S, p, c.k)
      [] c.f = "rice"           -> DecRice(E, S, p, c.k)
      [] c.f = "exp_golomb"     -> DecExpGolomb(E, S, p, c.k)
      [] c.f = "golomb"         -> DecGolomb(E, S, p, c.b)
      [] c.f = "minimal_binary" -> DecMinBin(E, S, p, c.b)
      [] c.f = "vbyte_be"       -> DecVByteBeFrom(E, S, p, <<>>)
      [] c.f = "vbyte_le"       -> DecVByteLeFrom(E, S, p, <<>>, 0)

\* the value domain of a code: universal codes stop at 2^64 - 2, VByte at
\* 2^64 - 1, minimal binary below its bound
MaxU64 == Ones(64)
InDomain(c, n) ==
    CASE c.f \in {"vbyte_be", "vbyte_le"} -> Len(n) <= 64
      [] c.f = "minimal_binary"            -> Lt(n, c.b)
      [] OTHER                             -> Len(n) <= 64 /\ n # MaxU64

Finite(s) == [bits |-> s, inf |-> FALSE]
Infinite(s) == [bits |-> s, inf |-> TRUE]
ByteStreamOf(E, bytes, inf) == [bytes |-> bytes, e |-> E, inf |-> inf]
=============================================================================
