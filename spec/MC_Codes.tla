------------------------------ MODULE MC_Codes ------------------------------
(***************************************************************************)
(* Design-level theorems about the codebook, checked by TLC on grids:      *)
(* Dec(Enc(n) \o tail) = n with position = Len(Enc(n)) = CLen(n), for      *)
(* several tails; prefix-freeness; CLen monotone.                          *)
(***************************************************************************)
EXTENDS Codes, TLC, FiniteSets

CONSTANTS MaxSmall          \* dense range 0..MaxSmall

VARIABLE x
Init == x = 0
Next == x' = x
Spec == Init /\ [][Next]_x

Es == {"be", "le"}

\* sparse grid of naturals: 2^i - 1, 2^i, 2^i + 1 for i in 0..63, and maxima
Pow2Grid == UNION {{Dec1(Pow2(i)), Pow2(i), Inc(Pow2(i))} : i \in 0..63}
BigGrid == (Pow2Grid \cup {Dec1(MaxU64), MaxU64, Norm(BytesToVec(<<222,173,190,239,1,35,69,103>>)),
            Norm(BytesToVec(<<0,0,163,85,170,85,170,85>>))})
SmallGrid == {FromInt(i) : i \in 0..MaxSmall}

Tails == {<<>>, Zeros(3), Ones(70), <<0,1,0,1,1,0,0,1>>}

SmallCodes ==
    {CGamma, CDelta, COmega, CVByteBe, CVByteLe, CUnary}
    \cup {CZeta(k) : k \in 1..8} \cup {CPi(k) : k \in 0..6} \cup {CRice(k) : k \in 0..6}
    \cup {CExpGolomb(k) : k \in 0..6} \cup {CGolomb(FromInt(b)) : b \in 1..20}
    \cup {CMinBin(FromInt(u)) : u \in {200, 255, 256, 257, 1000}}

\* codes for the big grid: bounded unary parts only
BigCodes ==
    {CGamma, CDelta, COmega, CVByteBe, CVByteLe}
    \cup {CZeta(k) : k \in 1..63} \cup {CPi(k) : k \in 0..63}
    \cup {CExpGolomb(k) : k \in 0..63}

\* Rice/Golomb need a small quotient
BigRiceOk(n, k) == Len(n) - k <= 7
BigGolombBs == {MaxU64, Dec1(MaxU64), Pow2(63), Inc(Pow2(63)), Dec1(Pow2(63)), Pow2(52), Inc(Pow2(40)), Dec1(Pow2(33))}

RoundTrip(c, E, n) ==
    LET w == Enc(c, E, n)
    IN  /\ Len(w) = CLen(c, n)
        /\ \A t \in Tails :
              LET r == Dec(c, E, Finite(w \o t), 0)
              IN  /\ ~IsShort(r) /\ r.v = n /\ r.p = Len(w)
        \* position-independence: the same codeword after 5 junk bits
        /\ LET r == Dec(c, E, Finite(<<1,0,1,1,0>> \o w), 5) IN ~IsShort(r) /\ r.v = n /\ r.p = 5 + Len(w)
        \* truncation by one bit is Short on a finite stream
        /\ IsShort(Dec(c, E, Finite(SubSeq(w, 1, Len(w) - 1)), 0))

Check(c, E, n) == RoundTrip(c, E, n) \/ (PrintT(<<"FAIL", c, E, n, Enc(c, E, n), Dec(c, E, Finite(Enc(c,E,n)), 0)>>) /\ FALSE)

SmallOK == \A c \in SmallCodes : \A E \in Es : \A n \in SmallGrid :
              InDomain(c, n) => Check(c, E, n)
BigOK == \A c \in BigCodes : \A E \in Es : \A n \in BigGrid :
              InDomain(c, n) => Check(c, E, n)
BigRiceOK == \A k \in 0..63 : \A E \in Es : \A n \in BigGrid :
              (InDomain(CRice(k), n) /\ BigRiceOk(n, k)) => Check(CRice(k), E, n)
BigGolombOK == \A b \in BigGolombBs : \A E \in Es : \A n \in BigGrid :
              (InDomain(CGolomb(b), n) /\ Len(n) - Len(b) <= 10) => Check(CGolomb(b), E, n)
BigMinBinOK == \A u \in BigGolombBs : \A E \in Es : \A n \in BigGrid :
              Lt(n, u) => Check(CMinBin(u), E, n)

\* prefix-freeness on the dense range
PrefixFree == \A c \in SmallCodes : \A E \in Es : \A i, j \in 0..Min2(MaxSmall, 150) :
     (i # j /\ InDomain(c, FromInt(i)) /\ InDomain(c, FromInt(j))) =>
        ~IsPrefixOf(Enc(c, E, FromInt(i)), Enc(c, E, FromInt(j)))

\* lengths are monotone on the dense range
Monotone == \A c \in SmallCodes : \A i \in 0..(MaxSmall - 1) :
     (c.f # "minimal_binary") => CLen(c, FromInt(i)) <= CLen(c, FromInt(i + 1))

\* the documented table in src/codes/mod.rs and a few hand-checked words
DocTable ==
    /\ EncGamma("be", FromInt(4)) = <<0,0,1,0,1>>
    /\ EncGamma("le", FromInt(4)) = <<0,0,1,1,0>>
    /\ EncDelta("be", FromInt(7)) = <<0,0,1,0,0,0,0,0>>
    /\ EncGamma("be", FromInt(7)) = <<0,0,0,1,0,0,0>>
    /\ EncMinBin("be", FromInt(2), FromInt(7)) = <<0,1,1>>
    /\ EncMinBin("le", FromInt(2), FromInt(7)) = <<1,0,1>>
    /\ EncUnary(FromInt(3)) = <<0,0,0,1>>

ASSUME DocTable
ASSUME SmallOK
ASSUME BigOK
ASSUME BigRiceOK
ASSUME BigGolombOK
ASSUME BigMinBinOK
ASSUME PrefixFree
ASSUME Monotone
=============================================================================
