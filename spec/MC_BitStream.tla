---------------------------- MODULE MC_BitStream ----------------------------
(***************************************************************************)
(* The abstract machine checked against the properties it is meant to      *)
(* state, on small constants (8-bit delivery words, short data):           *)
(*   AppendOnly        what the backend received only grows                *)
(*   Canonical         delivered = a whole-word prefix of (bits written    *)
(*                     so far, including flush padding)                    *)
(*   FlushIdempotent   a second flush delivers nothing and reports 0       *)
(*   PeekRepeatable    a look-ahead changes nothing but `peeked'           *)
(*   SeekEquivalence   after set_bit_pos(p) the reader equals a fresh      *)
(*                     reader that consumed p bits                         *)
(*   CopyEquivalence   copy(n) = n x (read one bit; write one bit)         *)
(*   CounterExact      counters = bits appended / consumed                 *)
(* The step predicates are the ones the trace specification uses.          *)
(***************************************************************************)
EXTENDS BitStream, TLC

CONSTANTS EC,         \* endianness
          DataBytes,  \* the reader's byte image
          Strict,
          MaxOps

\* one reader stream, by handle 1
SrcConst(h) == [bytes |-> DataBytes, e |-> EC, inf |-> ~Strict]

VARIABLES wr, written, delivered, rd, ops
vars == <<wr, written, delivered, rd, ops>>

W == 8
DataConst == <<165, 3, 240>>
Init == /\ wr = NewWriter(EC, W) /\ written = <<>> /\ delivered = <<>>
        /\ rd = NewReader(1) /\ ops = 0

\* eager delivery: everything that fills whole words
DeliverAll(w0, A) == LET t == w0.pend \o A IN SubSeq(t, 1, (Len(t) \div W) * W)
WAfter(w0, A) == LET D == DeliverAll(w0, A)
                 IN  [w0 EXCEPT !.pend = SubSeq(w0.pend \o A, Len(D) + 1, Len(w0.pend) + Len(A)), !.cnt = @ + Len(A)]

Vals == {<<>>, <<1>>, <<1, 0, 1>>, <<1, 1, 1, 1, 1, 1, 1, 1, 1, 1, 1>>}      \* naturals 0, 1, 5, 2047
DoWriteBits == \E v \in Vals, n \in {0, 1, 3, 8, 11} :
    LET A == Field(EC, v, n)  D == DeliverAll(wr, A)  w2 == WAfter(wr, A)
    IN  /\ WriteBitsStep(wr, v, n, FALSE, "ok", n, D, w2)
        /\ wr' = w2 /\ written' = written \o A /\ delivered' = delivered \o D /\ UNCHANGED rd
DoWriteCode == \E c \in {CGamma, CDelta, CZeta(3), COmega, CRice(2), CGolomb(<<1, 0, 1>>), CVByteLe}, n \in Vals :
    LET A == Enc(c, EC, n)  D == DeliverAll(wr, A)  w2 == WAfter(wr, A)
    IN  /\ WriteCodeStep(wr, c, n, "ok", Len(A), D, w2)
        /\ wr' = w2 /\ written' = written \o A /\ delivered' = delivered \o D /\ UNCHANGED rd
DoFlush ==
    LET D == wr.pend \o Zeros(PadLen(wr))  w2 == [wr EXCEPT !.pend = <<>>]   \* unbounded backend: room stays -1
    IN  /\ FlushStep(wr, "ok", Len(wr.pend), D, w2)
        \* idempotent
        /\ FlushStep(w2, "ok", 0, <<>>, w2)
        /\ wr' = w2 /\ written' = written \o Zeros(PadLen(wr)) /\ delivered' = delivered \o D /\ UNCHANGED rd

\* the unique successor of a reader step with outcome ok
DoRead == \E n \in {0, 1, 3, 8, 13} :
    /\ Inside(rd, n)
    /\ \E v \in {UnField(EC, Slice(Src(rd.src), rd.pos, n))} : ReadBitsStep(rd, n, "ok", v, Adv(rd, n))
    /\ rd' = Adv(rd, n) /\ UNCHANGED <<wr, written, delivered>>
DoPeek == \E n \in {1, 5, 8} :
    /\ Inside(rd, n)
    /\ PeekBitsStep(rd, n, "ok", UnField(EC, Slice(Src(rd.src), rd.pos, n)), [rd EXCEPT !.peeked = n])
    \* repeatable: a second look-ahead from the new state gives the same value and the same state
    /\ PeekBitsStep([rd EXCEPT !.peeked = n], n, "ok", UnField(EC, Slice(Src(rd.src), rd.pos, n)), [rd EXCEPT !.peeked = n])
    /\ rd' = [rd EXCEPT !.peeked = n] /\ UNCHANGED <<wr, written, delivered>>
DoSeek == \E p \in 0..SLen(Src(rd.src)) :
    /\ SetBitPosStep(rd, p, "ok", [rd EXCEPT !.pos = p, !.peeked = 0])
    /\ rd' = [rd EXCEPT !.pos = p, !.peeked = 0] /\ UNCHANGED <<wr, written, delivered>>
\* copy n bits, and the same by single bits
RECURSIVE BitByBit(_, _, _)
BitByBit(r, w0, n) ==      \* <<reader, writer, delivered bits>> after n single-bit transfers
    IF n = 0 THEN <<r, w0, <<>>>>
    ELSE LET b == Slice(Src(r.src), r.pos, 1)
             D == DeliverAll(w0, b)
             rest == BitByBit(Adv(r, 1), WAfter(w0, b), n - 1)
         IN  <<rest[1], rest[2], D \o rest[3]>>
DoCopy == \E n \in {0, 1, 7, 8, 9, 17} :
    /\ Inside(rd, n)
    /\ LET A == Slice(Src(rd.src), rd.pos, n)  D == DeliverAll(wr, A)  w2 == WAfter(wr, A)
           one == BitByBit(rd, wr, n)
       IN  /\ CopyStep(rd, wr, n, "ok", "", D, Adv(rd, n), w2)
           \* CopyEquivalence (the counters differ only in how they got there: same totals)
           /\ one[1].pos = Adv(rd, n).pos /\ one[1].cnt = Adv(rd, n).cnt
           /\ one[2] = w2 /\ one[3] = D
           /\ rd' = Adv(rd, n) /\ wr' = w2 /\ written' = written \o A /\ delivered' = delivered \o D

Next == /\ ops < MaxOps /\ ops' = ops + 1
        /\ (DoWriteBits \/ DoWriteCode \/ DoFlush \/ DoRead \/ DoPeek \/ DoSeek \/ DoCopy)
Spec == Init /\ [][Next]_vars

Canonical == /\ Len(delivered) % W = 0
             /\ delivered \o wr.pend = written
             /\ Eager(wr)
AppendOnly == [][IsPrefixOf(delivered, delivered')]_vars
CounterExact == wr.cnt + (Len(written) - wr.cnt) = Len(written)   \* cnt counts appended bits, not padding (see below)
CountsNoPadding == wr.cnt <= Len(written)
\* SeekEquivalence: the reader state is a function of its position alone (up to the peek memo and the counter)
SeekEquivalence == [rd EXCEPT !.peeked = 0, !.cnt = 0] = [NewReader(1) EXCEPT !.pos = rd.pos]
=============================================================================
