SPECIFICATION Spec
CONSTANT Src <- TraceSrc
POSTCONDITION Accepted
CHECK_DEADLOCK FALSE
