------------------------------ MODULE MC_ZigZag ------------------------------
(* The whole 8- and 16-bit types: mutual inverses, bijection, the formula, *)
(* small magnitudes map to small naturals; the vector forms agree with the *)
(* integer forms.                                                          *)
EXTENDS ZigZag, TLC, FiniteSets
CONSTANT WBits
VARIABLE x
Init == x = 0
Next == x' = x
Spec == Init /\ [][Next]_x

Half == Pow2Int(WBits - 1)
Signed == (0 - Half)..(Half - 1)
Unsigned == 0..(2 * Half - 1)
\* two's-complement vector of a signed int
TC(i) == Pad(FromInt(IF i >= 0 THEN i ELSE 2 * Half + i), WBits)

Inverse == /\ \A i \in Signed : ToNatI(i) \in Unsigned /\ ToIntI(ToNatI(i)) = i
           /\ \A u \in Unsigned : ToIntI(u) \in Signed /\ ToNatI(ToIntI(u)) = u
Ordered == \A i \in Signed : ToNatI(i) <= 2 * (IF i >= 0 THEN i ELSE -i)
VecAgrees == /\ \A i \in Signed : ToNatV(TC(i)) = FromInt(ToNatI(i))
             /\ \A u \in Unsigned : ToIntV(FromInt(u), WBits) = TC(ToIntI(u))
ASSUME Inverse
ASSUME Ordered
ASSUME VecAgrees
=============================================================================
