-------------------------- MODULE Trace_BitStream --------------------------
(***************************************************************************)
(* Trace validation: is a recorded execution of the real library a         *)
(* behaviour of BitStream?  One ndjson line per public call (logged at the *)
(* call's return with arguments, result class, returned value, bytes the   *)
(* backend received, reported position, counters).  Every field the step   *)
(* predicates need is logged, so validation is linear.                     *)
(***************************************************************************)
EXTENDS BitStream, Dispatch, TLC, Json, IOUtils
LOCAL INSTANCE SequencesExt

Rec == ndJsonDeserialize(IOEnv.TRACE)
N == Len(Rec)

\* a reader's handle is the index of its creation event
TraceSrc(h) == [bytes |-> Rec[h].bytes, e |-> Rec[h].e, inf |-> ~Rec[h].strict]

VARIABLES l,      \* index of the next event
          wrs,    \* writer id -> writer
          rds     \* reader id -> reader
vars == <<l, wrs, rds>>

Has(e, f) == f \in DOMAIN e
Nat8(bs) == BytesToNat(bs)                 \* a logged u64 (8 bytes, MSB first)

CodeOf(e) == Code(e.c, e.k, Nat8(e.cb))

Put(f, k, v) == [x \in (DOMAIN f) \cup {k} |-> IF x = k THEN v ELSE f[x]]
Del(f, k) == [x \in (DOMAIN f) \ {k} |-> f[x]]

Init == l = 1 /\ wrs = <<>> /\ rds = <<>>

Ev == Rec[l]
Is(op) == l <= N /\ Rec[l].op = op
Step == l' = l + 1

Reset == Is("reset") /\ Step /\ wrs' = <<>> /\ rds' = <<>>

NewW == Is("new_writer") /\ Step /\ UNCHANGED rds
        /\ wrs' = Put(wrs, Ev.o, NewWriterCap(Ev.e, Ev.w, IF Ev.backend = "slice" THEN Ev.cap ELSE -1) @@ [checks |-> Ev.checks, dn |-> 0, h1 |-> 0, h2 |-> 0,
                                        init |-> IF Has(Ev, "init") THEN Ev.init ELSE -1])

\* delivered bytes -> stream bits through the layout contract
Delivered(e, wr) == StreamOfBytes(wr.e, e.nb)

\* Everything the backend received from a writer, in order, is summarized by
\* its length and two polynomial checksums kept in the writer record (trace
\* bookkeeping: the state stays small whatever the length of the history).
P1 == 6700417
P2 == 4999999
H1(h, b) == (h * 257 + b + 1) % P1
H2(h, b) == (h * 257 + b + 1) % P2
Logged(wr, nb) == [wr EXCEPT !.dn = @ + Len(nb),
                             !.h1 = FoldLeft(H1, @, nb),
                             !.h2 = FoldLeft(H2, @, nb)]

\* counting wrappers expose their counter after every call
CntOK(e, obj) == Has(e, "cnt") => e.cnt = obj.cnt

WStepOK(e, wr2) == CntOK(e, wr2)

LiveW(o) == o \in DOMAIN wrs /\ ~wrs[o].dead

\* the successor writer after appending A with delivery D (if consistent)
After(wr, A, D) == IF Ev.res = "ok"
                   THEN [wr EXCEPT !.pend = SubSeq(wr.pend \o A, Len(D) + 1, Len(wr.pend) + Len(A)),
                                   !.cnt = @ + Len(A),
                                   !.room = IF @ < 0 THEN @ ELSE @ - Len(D) \div wr.w]
                   ELSE [wr EXCEPT !.dead = TRUE]

WriteBits ==
    /\ Is("write_bits") /\ Step /\ UNCHANGED rds /\ LiveW(Ev.o)
    /\ LET wr == wrs[Ev.o]  v == Nat8(Ev.v)  D == Delivered(Ev, wr)
           wr2 == After(wr, Field(wr.e, v, Ev.n), D)
       IN  /\ WriteBitsStep(wr, v, Ev.n, wr.checks, Ev.res, Ev.ret, D, wr2)
           /\ WStepOK(Ev, wr2)
           /\ wrs' = [wrs EXCEPT ![Ev.o] = Logged(wr2, Ev.nb)]

WriteUnary ==
    /\ Is("write_unary") /\ Step /\ UNCHANGED rds /\ LiveW(Ev.o)
    /\ LET wr == wrs[Ev.o]  x == Nat8(Ev.v)  D == Delivered(Ev, wr)
           wr2 == After(wr, EncUnary(x), D)
       IN  /\ WriteUnaryStep(wr, x, Ev.res, Ev.ret, D, wr2)
           /\ WStepOK(Ev, wr2)
           /\ wrs' = [wrs EXCEPT ![Ev.o] = Logged(wr2, Ev.nb)]

WriteCode ==
    /\ Is("write_code") /\ Step /\ UNCHANGED rds /\ LiveW(Ev.o)
    /\ LET wr == wrs[Ev.o]  c == CodeOf(Ev)  n == Nat8(Ev.v)  D == Delivered(Ev, wr)
           wr2 == After(wr, Enc(c, wr.e, n), D)
       IN  /\ InDomain(c, n)
           /\ WriteCodeStep(wr, c, n, Ev.res, Ev.ret, D, wr2)
           /\ WStepOK(Ev, wr2)
           /\ wrs' = [wrs EXCEPT ![Ev.o] = Logged(wr2, Ev.nb)]

WriteBytes ==
    /\ Is("write_bytes") /\ Step /\ UNCHANGED rds /\ LiveW(Ev.o)
    /\ LET wr == wrs[Ev.o]  D == Delivered(Ev, wr)
           wr2 == After(wr, StreamOfBytes(wr.e, Ev.bs), D)
       IN  /\ WriteBytesStep(wr, Ev.bs, Ev.res, Ev.ret, D, wr2)
           /\ WStepOK(Ev, wr2)
           /\ wrs' = [wrs EXCEPT ![Ev.o] = Logged(wr2, Ev.nb)]

\* a successful flush (or close) reaches the backend: its flush() is called at least once,
\* so that a buffering backend (a BufWriter under the word adapter) delivers too
BackendFlushed(e) == (Has(e, "bfl") /\ e.res = "ok") => e.bfl >= 1

Flush ==
    /\ Is("flush") /\ Step /\ UNCHANGED rds /\ LiveW(Ev.o)
    /\ LET wr == wrs[Ev.o]
           wr2 == IF Ev.res = "ok" THEN [wr EXCEPT !.pend = <<>>, !.room = IF @ < 0 \/ wr.pend = <<>> THEN @ ELSE @ - 1]
                  ELSE [wr EXCEPT !.dead = TRUE]
       IN  /\ FlushStep(wr, Ev.res, Ev.ret, Delivered(Ev, wr), wr2)
           /\ BackendFlushed(Ev)
           /\ WStepOK(Ev, wr2)
           /\ wrs' = [wrs EXCEPT ![Ev.o] = Logged(wr2, Ev.nb)]

AllZero(s) == \A i \in 1..Len(s) : s[i] = 0

\* close: flush semantics, and the storage of the real backend holds exactly
\* the delivered bytes, unaltered, in order (a fixed slice: followed by its
\* untouched tail)
Close ==
    /\ Is("close") /\ Step /\ UNCHANGED rds /\ LiveW(Ev.o)
    /\ LET wr == wrs[Ev.o]  wr2 == [wr EXCEPT !.pend = <<>>, !.dead = TRUE]
           wl == Logged(wr, Ev.nb)
       IN  /\ CloseStep(wr, Ev.res, Delivered(Ev, wr), [wr EXCEPT !.pend = <<>>, !.room = IF @ < 0 \/ wr.pend = <<>> THEN @ ELSE @ - 1])
           /\ BackendFlushed(Ev)
           /\ wl.dn <= Len(Ev.image)
           \* memory backends: the storage never shrinks (a vector grows to what was delivered)
           /\ wr.init >= 0 => Len(Ev.image) = Max2(wr.init, wl.dn)
           /\ FoldLeft(H1, 0, SubSeq(Ev.image, 1, wl.dn)) = wl.h1
           /\ FoldLeft(H2, 0, SubSeq(Ev.image, 1, wl.dn)) = wl.h2
           /\ AllZero(SubSeq(Ev.image, wl.dn + 1, Len(Ev.image)))
           /\ wrs' = [wrs EXCEPT ![Ev.o] = wr2]

\* ------------------------------------------------------------------ readers

NewR == Is("new_reader") /\ Step /\ UNCHANGED wrs
        /\ rds' = Put(rds, Ev.o, [NewReader(l) EXCEPT !.pos = IF Has(Ev, "start") THEN Ev.start ELSE 0]
                                  @@ [peekmax |-> Ev.peek])

LiveR(o) == o \in DOMAIN rds /\ ~rds[o].dead

RStepOK(e, rd2) == (rd2.dead \/ PosOK(rd2, e.pos)) /\ (rd2.dead \/ CntOK(e, rd2))

\* the successor is determined by the logged result class
RNext(rd, adv) == IF Ev.res = "ok" THEN Adv(rd, adv) ELSE Kill(rd)

ReadBits ==
    /\ Is("read_bits") /\ Step /\ UNCHANGED wrs /\ LiveR(Ev.o)
    /\ LET rd == rds[Ev.o]  rd2 == RNext(rd, Ev.n)
       IN  /\ ReadBitsStep(rd, Ev.n, Ev.res, Nat8(Ev.v), rd2)
           /\ RStepOK(Ev, rd2)
           /\ rds' = [rds EXCEPT ![Ev.o] = rd2]

PeekBits ==
    /\ Is("peek_bits") /\ Step /\ UNCHANGED wrs /\ LiveR(Ev.o)
    /\ LET rd == rds[Ev.o]
           rd2 == IF Ev.res = "ok" THEN [rd EXCEPT !.peeked = Ev.n] ELSE Kill(rd)
       IN  /\ Ev.n >= 1 /\ Ev.n <= rd.peekmax
           /\ PeekBitsStep(rd, Ev.n, Ev.res, Nat8(Ev.v), rd2)
           /\ RStepOK(Ev, rd2)
           /\ rds' = [rds EXCEPT ![Ev.o] = rd2]

SkipAfterPeek ==
    /\ Is("skip_after_peek") /\ Step /\ UNCHANGED wrs /\ LiveR(Ev.o)
    /\ LET rd == rds[Ev.o]  rd2 == RNext(rd, Ev.n)
       IN  /\ SkipAfterPeekStep(rd, Ev.n, Ev.res, rd2)
           /\ RStepOK(Ev, rd2)
           /\ rds' = [rds EXCEPT ![Ev.o] = rd2]

SkipBits ==
    /\ Is("skip_bits") /\ Step /\ UNCHANGED wrs /\ LiveR(Ev.o)
    /\ LET rd == rds[Ev.o]  rd2 == RNext(rd, Ev.n)
       IN  /\ SkipBitsStep(rd, Ev.n, Ev.res, rd2)
           /\ RStepOK(Ev, rd2)
           /\ rds' = [rds EXCEPT ![Ev.o] = rd2]

ReadUnary ==
    /\ Is("read_unary") /\ Step /\ UNCHANGED wrs /\ LiveR(Ev.o)
    /\ LET rd == rds[Ev.o]  v == Nat8(Ev.v)
           rd2 == IF Ev.res = "ok" THEN Adv(rd, ToInt(v) + 1) ELSE Kill(rd)
       IN  /\ Len(v) <= 29
           /\ ReadUnaryStep(rd, Ev.res, v, rd2)
           /\ RStepOK(Ev, rd2)
           /\ rds' = [rds EXCEPT ![Ev.o] = rd2]

ReadCode ==
    /\ Is("read_code") /\ Step /\ UNCHANGED wrs /\ LiveR(Ev.o)
    /\ LET rd == rds[Ev.o]  c == CodeOf(Ev)
           d == Dec(c, EOf(rd), Src(rd.src), rd.pos)
           rd2 == IF Ev.res = "ok" /\ ~IsShort(d) THEN Adv(rd, d.p - rd.pos) ELSE Kill(rd)
       IN  /\ ReadCodeStep(rd, c, Ev.res, Nat8(Ev.v), rd2)
           /\ RStepOK(Ev, rd2)
           /\ rds' = [rds EXCEPT ![Ev.o] = rd2]

ReadBytes ==
    /\ Is("read_bytes") /\ Step /\ UNCHANGED wrs /\ LiveR(Ev.o)
    /\ LET rd == rds[Ev.o]  rd2 == RNext(rd, 8 * Ev.n)
       IN  /\ ReadBytesStep(rd, Ev.n, Ev.res, Ev.ret, Ev.bs, rd2)
           /\ RStepOK(Ev, rd2)
           /\ rds' = [rds EXCEPT ![Ev.o] = rd2]

SetBitPos ==
    /\ Is("set_bit_pos") /\ Step /\ UNCHANGED wrs /\ LiveR(Ev.o)
    /\ LET rd == rds[Ev.o]
           rd2 == IF Ev.res = "ok" THEN [rd EXCEPT !.pos = Ev.p, !.peeked = 0] ELSE Kill(rd)
       IN  /\ SetBitPosStep(rd, Ev.p, Ev.res, rd2)
           /\ RStepOK(Ev, rd2)
           /\ rds' = [rds EXCEPT ![Ev.o] = rd2]

\* a clone continues independently from the same position
Clone == Is("clone") /\ Step /\ UNCHANGED wrs /\ Ev.o \in DOMAIN rds
         /\ rds' = Put(rds, Ev.o2, rds[Ev.o])

DropR == Is("drop_reader") /\ Step /\ UNCHANGED wrs /\ rds' = Del(rds, Ev.o)
DropW == Is("drop_writer") /\ Step /\ UNCHANGED rds /\ wrs' = Del(wrs, Ev.o)

Copy ==
    /\ Is("copy") /\ Step /\ LiveR(Ev.o) /\ LiveW(Ev.ow)
    /\ LET rd == rds[Ev.o]  wr == wrs[Ev.ow]
           ok == Ev.res = "ok"
           rd2 == RNext(rd, Ev.n)
           D == Delivered(Ev, wr)
           wr2 == After(wr, Slice(Src(rd.src), rd.pos, IF ok THEN Ev.n ELSE 0), D)
       IN  /\ EOf(rd) = wr.e
           /\ CopyStep(rd, wr, Ev.n, Ev.res, IF Has(Ev, "side") THEN Ev.side ELSE "read", D, rd2, wr2)
           /\ RStepOK(Ev, rd2)
           /\ (ok /\ Has(Ev, "wcnt")) => Ev.wcnt = wr2.cnt
           \* a copy that failed because the source ran out: every write that was made succeeded, so a
           \* counting writer has counted exactly the bits the stream took: what was delivered during the
           \* call, less what was pending before, plus less than a word still pending
           /\ (~ok /\ Has(Ev, "wcnt") /\ Has(Ev, "side") /\ Ev.side = "read" /\ wr.cnt >= 0) =>
                 LET lo == 8 * Len(Ev.nb) - Len(wr.pend)
                 IN  lo <= Ev.wcnt - wr.cnt /\ Ev.wcnt - wr.cnt <= lo + wr.w - 1 /\ Ev.wcnt - wr.cnt <= Ev.n
           /\ rds' = [rds EXCEPT ![Ev.o] = rd2]
           /\ wrs' = [wrs EXCEPT ![Ev.ow] = Logged(wr2, Ev.nb)]

\* length functions (any variant, any dispatch path) equal the closed-form length
LenEv ==
    /\ Is("len") /\ Step /\ UNCHANGED <<wrs, rds>>
    /\ LET c == CodeOf(Ev)  n == Nat8(Ev.v)
       IN  InDomain(c, n) /\ Ev.ret = CLen(c, n)

\* ------------------------------------------------------------------ dispatch
\* The event names the identifier used (a compile-time constant by prefix +
\* index, or an enumeration variant + parameter); the expected behaviour is
\* that of the code the identifier names.
Named(e) == IF e.idk = "const" THEN ConstCodeOf(e.cn, e.ci) ELSE EnumCode(e.en, Nat8(e.ep))

DWrite ==
    /\ Is("dwrite") /\ Step /\ UNCHANGED rds /\ LiveW(Ev.o)
    /\ LET wr == wrs[Ev.o]  c == Named(Ev)  n == Nat8(Ev.v)  D == Delivered(Ev, wr)
           wr2 == After(wr, Enc(c, wr.e, n), D)
       IN  /\ InDomain(c, n)
           /\ WriteCodeStep(wr, c, n, Ev.res, Ev.ret, D, wr2)
           /\ wrs' = [wrs EXCEPT ![Ev.o] = Logged(wr2, Ev.nb)]

DRead ==
    /\ Is("dread") /\ Step /\ UNCHANGED wrs /\ LiveR(Ev.o)
    /\ LET rd == rds[Ev.o]  c == Named(Ev)
           d == Dec(c, EOf(rd), Src(rd.src), rd.pos)
           rd2 == IF Ev.res = "ok" /\ ~IsShort(d) THEN Adv(rd, d.p - rd.pos) ELSE Kill(rd)
       IN  /\ ReadCodeStep(rd, c, Ev.res, Nat8(Ev.v), rd2)
           /\ RStepOK(Ev, rd2)
           /\ rds' = [rds EXCEPT ![Ev.o] = rd2]

DLen == /\ Is("dlen") /\ Step /\ UNCHANGED <<wrs, rds>>
        /\ LET c == Named(Ev)  n == Nat8(Ev.v) IN InDomain(c, n) /\ Ev.ret = CLen(c, n)

\* the function-pointer objects accept (at least) the documented set of enumeration values; what they
\* accept beyond it is their business - whatever they accept is then checked call by call (dwrite / dread / dlen)
FuncNew == /\ Is("func_new") /\ Step /\ UNCHANGED <<wrs, rds>>
           /\ Supported(EnumCode(Ev.en, Nat8(Ev.ep))) => Ev.res = "ok"
\* the statistics wrapper saw every value exactly once
StatsCount == Is("stats_count") /\ Step /\ UNCHANGED <<wrs, rds>> /\ Ev.n = Ev.total

\* ------------------------------------------------------------------ names (C16)
SameId(n1, p1, n2, p2) == n1 = n2 /\ (n1 \in ParamLess \/ p1 = p2)
TextRt == /\ Is("text_rt") /\ Step /\ UNCHANGED <<wrs, rds>>
          /\ Ev.res = "ok" /\ SameId(Ev.an, Ev.ap, Ev.bn, Ev.bp)
ParseEv == /\ Is("parse") /\ Step /\ UNCHANGED <<wrs, rds>>
           /\ LET t == [name |-> Ev.name, paren |-> Ev.paren, pkind |-> Ev.pkind, pval |-> Nat8(Ev.pval), trailing |-> Ev.trailing,
                         close |-> IF Has(Ev, "close") THEN Ev.close ELSE TRUE]
              IN  IF MustReject(t) THEN Ev.res = "err"
                  ELSE IF WellFormed(t) THEN Ev.res = "ok" /\ SameId(Ev.name, Ev.pval, Ev.bn, Ev.bp)
                  ELSE Ev.res = "err" \/ SameId(Ev.name, Ev.pval, Ev.bn, Ev.bp)
ConstRt == /\ Is("const_rt") /\ Step /\ UNCHANGED <<wrs, rds>>
           /\ Ev.res = "ok" => (Ev.res2 = "ok" /\ SameCodewords(EnumCode(Ev.an, Nat8(Ev.ap)), EnumCode(Ev.bn, Nat8(Ev.bp))))
IdRt == /\ Is("id_rt") /\ Step /\ UNCHANGED <<wrs, rds>>
        /\ ConstExists(Ev.cn, Ev.ci) /\ Ev.res = "ok" /\ Ev.same_id
        /\ SameCodewords(ConstCodeOf(Ev.cn, Ev.ci), EnumCode(Ev.bn, Nat8(Ev.bp)))
IdBad == Is("id_bad") /\ Step /\ UNCHANGED <<wrs, rds>> /\ Ev.res = "err"
CodeEq == /\ Is("code_eq") /\ Step /\ UNCHANGED <<wrs, rds>>
          /\ Ev.eq => (SameId(Ev.an, Ev.ap, Ev.bn, Ev.bp)
                       \/ SameCodewords(EnumCode(Ev.an, Nat8(Ev.ap)), EnumCode(Ev.bn, Nat8(Ev.bp))))

DispatchNext == DWrite \/ DRead \/ DLen \/ FuncNew \/ StatsCount \/ TextRt \/ ParseEv \/ ConstRt \/ IdRt \/ IdBad \/ CodeEq

Next == \/ DispatchNext \/ LenEv \/ Reset \/ NewW \/ WriteBits \/ WriteUnary \/ WriteCode \/ WriteBytes \/ Flush \/ Close
        \/ NewR \/ ReadBits \/ PeekBits \/ SkipAfterPeek \/ SkipBits \/ ReadUnary \/ ReadCode
        \/ ReadBytes \/ SetBitPos \/ Clone \/ DropR \/ DropW \/ Copy

Spec == Init /\ [][Next]_vars

\* acceptance: every line consumed; otherwise name the first rejected event
Accepted ==
    LET d == TLCGet("stats").diameter
    IN  IF d - 1 = N THEN TRUE
        ELSE /\ PrintT(<<"REJECTED", d, IF d <= N THEN Rec[d] ELSE "eof">>)
             /\ FALSE
=============================================================================
