----------------------------- MODULE Trace_Pure -----------------------------
(***************************************************************************)
(* Trace validation of the stateless parts of the library and of the       *)
(* change-point iterator:                                                  *)
(*   zz        signed/natural mapping (ZigZag), any width                  *)
(*   vb_write / vb_read   byte-level VByte functions (Codes!VByteBytesBe, Le) *)
(*   len_steps monotone length functions given by their change points      *)
(*   cp_*      FindChangePoints on step functions and on length functions, *)
(*             with Kraft's inequality over the brackets it yields         *)
(***************************************************************************)
EXTENDS Codes, ZigZag, TLC, Json, IOUtils
LOCAL INSTANCE SequencesExt

Rec == ndJsonDeserialize(IOEnv.TRACE)
N == Len(Rec)
VARIABLES l, cps
vars == <<l, cps>>
Ev == Rec[l]
Is(op) == l <= N /\ Rec[l].op = op
Step == l' = l + 1
Has(e, f) == f \in DOMAIN e
Put(f, k, v) == [x \in (DOMAIN f) \cup {k} |-> IF x = k THEN v ELSE f[x]]
Nat8(bs) == BytesToNat(bs)
CodeOf(e) == Code(e.c, e.k, Nat8(e.cb))

Init == l = 1 /\ cps = <<>>
Reset == Is("reset") /\ Step /\ cps' = <<>>

\* ---- ZigZag: x is the two's-complement image (w/8 bytes, MSB first), y the natural
ZZ == /\ Is("zz") /\ Step /\ UNCHANGED cps
      /\ LET xv == BytesToVec(Ev.x)  y == BytesToNat(Ev.y)  w == 8 * Len(Ev.x)
         IN  IF Ev.dir = "to_nat" THEN ToNatV(xv) = y
             ELSE ToIntV(y, w) = xv

\* ---- an exhaustive sweep of a whole type, run-length encoded by the driver: each
\* segment is [first input (raw bits), steps, delta, first output (raw bits)] and says that
\* `steps' consecutive inputs (stride apart) have outputs in arithmetic progression.
\* The specification's map is linear on each sign-constant / parity-constant range, so a
\* segment is right everywhere iff it is right at both ends and does not cross a range boundary
\* (then its slope is forced).  The segments must tile the whole type.
SegIn(sg) == BytesToVec(sg[1])
SegSteps(sg) == BytesToNat(sg[2])
SegOut(sg) == BytesToVec(sg[4])
AddVecInt(v, k) == Low(Add(Norm(v), k), Len(v))                    \* raw bits + natural k, modulo the width
ZZSweep ==
    /\ Is("zz_sweep") /\ Step /\ UNCHANGED cps
    /\ LET w == Ev.w  segs == Ev.segs  n == Len(segs)
           stride == FromInt(Ev.stride)
           \* raw bits of the last input of a segment
           LastIn(sg) == AddVecInt(SegIn(sg), Mul(SegSteps(sg), stride))
           \* observed raw output at the end of a segment: first output + steps * delta (mod 2^w)
           LastOut(sg) == IF sg[3] >= 0 THEN AddVecInt(SegOut(sg), Mul(SegSteps(sg), FromInt(sg[3])))
                          ELSE Low(SubMod(Norm(SegOut(sg)), Low(Mul(SegSteps(sg), FromInt(0 - sg[3])), w), w), w)
           \* the specification at an input given by its raw bits
           SpecAt(xb) == IF Ev.dir = "to_nat" THEN Low(ToNatV(xb), w) ELSE ToIntV(Norm(xb), w)
           \* a segment must stay inside one linear range: same sign of the input for to_nat
           \* (inputs walk MIN..MAX as signed, i.e. raw 100..0 -> 111..1 -> 000..0 -> 011..1)
           SameRange(sg) == IF Ev.dir = "to_nat" THEN SegIn(sg)[1] = LastIn(sg)[1] ELSE TRUE
       IN  /\ n >= 1 /\ n = Ev.nsegs /\ n <= 8
           /\ \A i \in 1..n :
                 /\ SpecAt(SegIn(segs[i])) = SegOut(segs[i])
                 /\ SpecAt(LastIn(segs[i])) = LastOut(segs[i])
                 /\ (SegSteps(segs[i]) = <<1>> \/ SameRange(segs[i]))
                 /\ i < n => LastIn(segs[i]) = SegIn(segs[i + 1])        \* contiguous
           \* the whole type is covered
           /\ IF Ev.dir = "to_nat"
              THEN SegIn(segs[1]) = <<1>> \o Zeros(w - 1) /\ LastIn(segs[n]) = <<0>> \o Ones(w - 1)
              ELSE IF Ev.dir = "to_int_even"
              THEN SegIn(segs[1]) = Zeros(w) /\ LastIn(segs[n]) = Ones(w - 1) \o <<0>>
              ELSE SegIn(segs[1]) = Zeros(w - 1) \o <<1>> /\ LastIn(segs[n]) = Ones(w)

\* ---- byte-level VByte
VBBytes(variant, n) == IF variant \in {"be", "generic-be"} THEN VByteBytesBe(n) ELSE VByteBytesLe(n)
\* the sink may take a few bytes per call (chunk) and may run out of room (cap): everything is
\* delivered, or the call fails having delivered a prefix
VBWrite == /\ Is("vb_write") /\ Step /\ UNCHANGED cps
           /\ LET n == Nat8(Ev.v)  bs == VBBytes(Ev.variant, n)
              IN  IF Has(Ev, "cap") /\ Ev.cap < Len(bs)
                  THEN Ev.res = "err" /\ Len(Ev.bytes) <= Len(bs) /\ Ev.bytes = SubSeq(bs, 1, Len(Ev.bytes))
                  ELSE Ev.res = "ok" /\ Ev.bytes = bs /\ Ev.ret = Len(bs) /\ 8 * Len(bs) = LenVByte(n)
\* decoding a byte string: the decoder consumes exactly the terminated prefix
VBRead == /\ Is("vb_read") /\ Step /\ UNCHANGED cps
          /\ LET S == [bytes |-> Ev.bytes, e |-> "be", inf |-> FALSE]
                 c == IF Ev.variant \in {"be", "generic-be"} THEN CVByteBe ELSE CVByteLe
                 d == Dec(c, "be", S, 0)
             IN  IF IsShort(d) THEN Ev.res = "err"
                 ELSE IF Len(d.v) > 64 THEN TRUE        \* value does not fit in 64 bits: outside the claim
                 ELSE /\ Ev.res = "ok" /\ Nat8(Ev.v) = d.v /\ 8 * Ev.consumed = d.p
                      \* completeness: re-encoding the value reproduces the terminated string
                      /\ VBBytes(Ev.variant, d.v) = SubSeq(Ev.bytes, 1, d.p \div 8)

\* ---- a monotone length function below `upto', given by all its change points
StepsOK(c, st, upto) ==
    \A i \in 1..Len(st) :
        LET x == Nat8(st[i][1])  len == st[i][2]
            nextx == IF i < Len(st) THEN Nat8(st[i + 1][1]) ELSE upto
        IN  /\ CLen(c, x) = len
            /\ (i = 1 => x = <<>>)
            /\ (i > 1 => CLen(c, Dec1(x)) < len)
            /\ CLen(c, Dec1(nextx)) = len              \* constant up to the next change point
LenSteps == /\ Is("len_steps") /\ Step /\ UNCHANGED cps
            /\ Ev.monotone /\ StepsOK(CodeOf(Ev), Ev.steps, Nat8(Ev.upto))

\* ---- change-point iterator
\* an iterator is [kind, c, steps, v0, n (yields so far), last (position), lastlen, ksum, ended]
KScale == 200
CPNew == /\ Is("cp_new") /\ Step
         /\ cps' = Put(cps, Ev.o, [kind |-> Ev.kind,
                                  c |-> IF Ev.kind = "code" THEN CodeOf(Ev) ELSE CGamma,
                                  steps |-> IF Ev.kind = "steps" THEN Ev.steps ELSE <<>>,
                                  v0 |-> IF Ev.kind = "steps" THEN Ev.v0 ELSE 0,
                                  n |-> 0, last |-> <<>>, lastlen |-> 0, ksum |-> <<>>, ended |-> FALSE, pts |-> <<>>])
Half64 == Pow2(63)
\* the i-th change point of a step function (1-based): 0 then the steps
StepCP(it, i) == IF i = 1 THEN [pos |-> <<>>, val |-> it.v0]
                 ELSE [pos |-> Nat8(it.steps[i - 1][1]), val |-> it.steps[i - 1][2]]
NStepCP(it) == 1 + Len(it.steps)
KTerm(from, to, len) == ShiftL(Sub(to, from), KScale - len)          \* (to - from) * 2^(K - len)
CPNext ==
    /\ Is("cp_next") /\ Step
    /\ LET it == cps[Ev.o]  x == Nat8(Ev.x) IN
       /\ ~it.ended
       /\ Ev.res \in {"some", "none"}                 \* a hang (watchdog) or a panic is never a step
       /\ IF Ev.res = "some"
          THEN /\ IF it.kind = "steps"
                  THEN it.n + 1 <= NStepCP(it) /\ StepCP(it, it.n + 1).pos = x /\ StepCP(it, it.n + 1).val = Ev.fx
                  ELSE /\ CLen(it.c, x) = Ev.fx
                       /\ IF it.n = 0 THEN x = <<>>
                          ELSE /\ Lt(it.last, x)
                               /\ CLen(it.c, Dec1(x)) = it.lastlen       \* nothing skipped (lengths are monotone)
                               /\ Ev.fx # it.lastlen
               /\ cps' = [cps EXCEPT ![Ev.o] =
                            [it EXCEPT !.n = @ + 1, !.last = x, !.lastlen = Ev.fx, !.pts = Append(@, <<x, Ev.fx>>),
                                       !.ksum = IF it.n = 0 \/ it.kind = "steps" \/ it.lastlen > KScale THEN @
                                                ELSE Add(@, KTerm(it.last, x, it.lastlen))]]
          ELSE \* the iterator ended: no change point up to 2^63 is left
               /\ IF it.kind = "steps"
                  THEN \A i \in (it.n + 1)..NStepCP(it) : Lt(Half64, StepCP(it, i).pos)
                  ELSE it.n >= 1 /\ (Lt(it.last, Half64) => CLen(it.c, Half64) = it.lastlen)
               /\ cps' = [cps EXCEPT ![Ev.o] = [it EXCEPT !.ended = TRUE]]
\* Kraft's inequality over the brackets of a length function whose iterator
\* ended: sum of (bracket size) * 2^-len <= 1, in exact arithmetic; the last
\* bracket extends to the end of the domain (2^64 - 1 values: 0 .. 2^64 - 2)
CPKraft == /\ Is("cp_kraft") /\ Step /\ UNCHANGED cps
           /\ LET it == cps[Ev.o]
                  total == Add(it.ksum, KTerm(it.last, Dec1(Pow2(64)), it.lastlen))
              IN  it.kind = "code" /\ it.ended /\ it.lastlen <= KScale /\ Leq(total, Pow2(KScale))

\* ---- the implied distribution of a length function (src/utils/implied.rs): the change
\* points with length <= 128 (the iterator o has just replayed them), the probability
\* of each bracket but the last as an IEEE double, and samples drawn from it.
\* A double is logged exactly as [odd mantissa, exponent]; the expected one is
\* (x2 - x1) rounded to 53 bits (ties to even), times 2^-len (exact).
Round53(D) == IF Len(D) <= 53 THEN [m |-> D, e |-> 0]
              ELSE LET k == Len(D) - 53
                       top == SubSeq(D, 1, 53)
                       rest == Norm(SubSeq(D, 54, Len(D)))
                       half == Pow2(k - 1)
                       up == Lt(half, rest) \/ (rest = half /\ top[53] = 1)
                   IN  [m |-> IF up THEN Inc(top) ELSE top, e |-> k]
ProbOK(p1, p2, pr) ==
    LET r == Round53(Sub(p2[1], p1[1]))
        k == SelectLastInSeq(r.m, LAMBDA t : t = 1)
    IN  /\ Nat8(pr[1]) = SubSeq(r.m, 1, k)
        /\ pr[2] = r.e + (Len(r.m) - k) - p1[2]
ImpliedMaxLen == 128
Implied ==
    /\ Is("implied") /\ Step /\ UNCHANGED cps
    /\ LET it == cps[Ev.o]  pts == it.pts  n == Len(pts) IN
       /\ it.kind = "code" /\ ~it.ended /\ n = it.n /\ n >= 1
       /\ \A i \in 1..n : pts[i][2] <= ImpliedMaxLen
       \* nothing at most 128 bits long is left out: the witness is the next change point
       /\ IF Ev.nxt = "some"
          THEN LET y == Nat8(Ev.nx) IN Lt(it.last, y) /\ CLen(it.c, Dec1(y)) = it.lastlen /\ CLen(it.c, y) > ImpliedMaxLen
          ELSE Ev.nxt = "none" /\ (Lt(it.last, Half64) => CLen(it.c, Half64) = it.lastlen)
       \* one probability per bracket; the code leaves the last bracket out (a TODO in the source): both accepted
       /\ Len(Ev.probs) \in {n - 1, n}
       /\ \A i \in 1..(n - 1) : ProbOK(pts[i], pts[i + 1], Ev.probs[i])
       \* sampling: must work when there are two brackets or more (with one, the code as it is panics:
       \* accepted, not required); every sample is a value whose codeword is at most 128 bits long
       /\ n > 1 => Ev.sres = "ok"
       /\ Ev.sres = "ok" =>
             /\ Len(Ev.samples) = Ev.nsamples
             /\ \A j \in 1..Len(Ev.samples) : CLen(it.c, Nat8(Ev.samples[j])) <= ImpliedMaxLen

Next == Implied \/ Reset \/ ZZ \/ ZZSweep \/ VBWrite \/ VBRead \/ LenSteps \/ CPNew \/ CPNext \/ CPKraft
Spec == Init /\ [][Next]_vars
Accepted ==
    LET d == TLCGet("stats").diameter
    IN  IF d - 1 = N THEN TRUE
        ELSE PrintT(<<"REJECTED", d, IF d <= N THEN Rec[d] ELSE "eof">>) /\ FALSE
=============================================================================
