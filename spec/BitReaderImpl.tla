--------------------------- MODULE BitReaderImpl ---------------------------
(***************************************************************************)
(* Implementation-shaped model of the unbuffered BitReader                 *)
(* (src/impls/bit_reader.rs) over a 64-bit word backend with a cursor:     *)
(* every operation re-positions the backend at bit_index / 64 and reads    *)
(* one or two words (single / double word access), read_unary loops over   *)
(* words, skip only moves the index.  State: [idx, cur] (bit index and     *)
(* backend cursor; the latter is what a forgotten set_word_pos would       *)
(* expose).  Operators return [idx, cur, val, err, bad].                   *)
(***************************************************************************)
EXTENDS Vec

CONSTANTS E, Data, Strict       \* Data: stream-order bits, Len(Data) % 64 = 0

NWords == Len(Data) \div 64
St(idx, cur) == [idx |-> idx, cur |-> cur]
Res(idx, cur, val, err, bad) == [idx |-> idx, cur |-> cur, val |-> val, err |-> err, bad |-> bad]

WordAt(i) == IF i < NWords
             THEN LET b == SubSeq(Data, i * 64 + 1, (i + 1) * 64) IN IF E = "be" THEN b ELSE Rev(b)
             ELSE VZero(64)
\* set_word_pos: the strict backends reject positions beyond the end
CanSeek(p) == ~Strict \/ p <= NWords
CanRead(p) == ~Strict \/ p < NWords

\* the value of the n bits at offset off of word(s) wp, wp+1 as the code computes it
Extract(wp, off, n) ==
    IF off + n <= 64
    THEN LET w == WordAt(wp)
         IN  IF E = "be" THEN Shr(Shl(w, off), 64 - n)
             ELSE Shr(Shl(w, (64 - n) - off), 64 - n)
    ELSE LET a == WordAt(wp)  b == WordAt(wp + 1)
         IN  IF E = "be" THEN Or(Shr(Shl(a, off), 64 - n), Shr(b, 128 - off - n))
             ELSE Or(Shr(Shl(b, 128 - off - n), 64 - n), Shr(a, off))

Access(s, n, advance) ==     \* read_bits / peek_bits
    LET wp == s.idx \div 64  off == s.idx % 64
        two == off + n > 64
    IN  IF n = 0 THEN Res(s.idx, s.cur, VZero(64), FALSE, FALSE)
        ELSE IF ~CanSeek(wp) THEN Res(s.idx, s.cur, <<>>, TRUE, FALSE)
        ELSE IF ~CanRead(wp) THEN Res(s.idx, wp, <<>>, TRUE, FALSE)
        ELSE IF two /\ ~CanRead(wp + 1) THEN Res(s.idx, wp + 1, <<>>, TRUE, FALSE)
        ELSE Res(IF advance THEN s.idx + n ELSE s.idx, wp + (IF two THEN 2 ELSE 1), Extract(wp, off, n), FALSE,
                 ~(64 - n >= 0 /\ 64 - n < 64))
ReadBits(s, n) == Access(s, n, TRUE)
PeekBits(s, n) == LET r == Access(s, n, FALSE) IN [r EXCEPT !.val = IF r.err THEN <<>> ELSE Cast(r.val, 32)]
SkipBits(s, n) == Res(s.idx + n, s.cur, <<>>, FALSE, FALSE)
SetBitPos(s, p) == Res(p, s.cur, <<>>, FALSE, FALSE)

\* first set bit at or after stream index p, -1 if none
RECURSIVE NextWordWithOne(_)
NextWordWithOne(i) == IF i >= NWords \/ WordAt(i) # VZero(64) THEN i ELSE NextWordWithOne(i + 1)
ReadUnary(s) ==
    LET wp == s.idx \div 64  off == s.idx % 64 IN
    IF ~CanSeek(wp) THEN Res(s.idx, s.cur, -1, TRUE, FALSE)
    ELSE IF ~CanRead(wp) THEN Res(s.idx, wp, -1, TRUE, FALSE)
    ELSE LET w0 == IF E = "be" THEN Shl(WordAt(wp), off) ELSE Shr(WordAt(wp), off)
             z0 == IF E = "be" THEN LeadZ(w0) ELSE TrailZ(w0)
         IN  IF z0 < 64 - off THEN Res(s.idx + z0 + 1, wp + 1, z0, FALSE, FALSE)
             ELSE LET j == NextWordWithOne(wp + 1)
                  IN  IF j >= NWords THEN Res(s.idx, NWords, IF Strict THEN -1 ELSE -2, TRUE, FALSE)   \* zero-extended: never returns
                      ELSE LET z == IF E = "be" THEN LeadZ(WordAt(j)) ELSE TrailZ(WordAt(j))
                               total == (64 - off) + 64 * (j - wp - 1) + z
                           IN  Res(s.idx + total + 1, j + 1, total, FALSE, FALSE)

\* abstract side
DBit(i) == IF i < Len(Data) THEN Data[i + 1] ELSE 0
DSlice(p, n) == [i \in 1..n |-> DBit(p + i - 1)]
Expect(p, n, w) == Pad(UnField(E, DSlice(p, n)), w)
InData(p, n) == ~Strict \/ p + n <= Len(Data)
=============================================================================
