---------------------------- MODULE Gen_BufReader ----------------------------
(***************************************************************************)
(* Generator: breadth-first exploration of the implementation-shaped       *)
(* reader from its real initial state; prints, for every reachable fill    *)
(* level (the coverage key, via VIEW), the shortest history that reaches   *)
(* it.  The harness replays each history on the real readers and then      *)
(* applies its whole operation alphabet there.                             *)
(***************************************************************************)
EXTENDS BufReaderImpl, TLC, Json

DataOnes == Ones(6 * W)

VARIABLES st, hist
vars == <<st, hist>>

Init == st = St(VZero(BB), 0, 0) /\ hist = <<>>

Go(r, op) == ~r.err /\ ~r.bad /\ st' = St(r.buf, r.bib, r.wpos) /\ hist' = Append(hist, op)

Next == /\ Len(hist) < 3
        /\ \/ \E n \in 1..Min2(64, 2 * W) : Go(ReadBits(st, n), [op |-> "read_bits", n |-> n])
           \/ \E n \in 1..W : Go(Peek(st, n), [op |-> "peek_bits", n |-> n])
           \/ \E n \in 1..W : Go(SkipBits(st, n), [op |-> "skip_bits", n |-> n])

Spec == Init /\ [][Next]_vars

\* one representative per fill level
View == st.bib

Emit == PrintT(<<"PATH", ToJson([bib |-> st.bib, w |-> W, path |-> hist])>>)
=============================================================================
