-------------------------------- MODULE Stats --------------------------------
(***************************************************************************)
(* CodesStats (src/utils/stats.rs): for every tracked code the total       *)
(* number of bits needed to write the values observed so far, and the      *)
(* number of values.  Totals are naturals (bit sequences): a single large  *)
(* value already costs 2^60 bits in unary.                                 *)
(* Tracked codes with the documented index -> parameter mapping:           *)
(*   zeta[i] = zeta_(i+1), golomb[i] = Golomb_(i+1), exp_golomb[i] = k = i, *)
(*   rice[i] = Rice_i, pi[i] = pi_(i+2)       (default sizes 10/20/10/10/10) *)
(***************************************************************************)
EXTENDS Codes

Tracked ==
    <<CUnary, CGamma, CDelta, COmega, CVByteBe>>
    \o [i \in 1..10 |-> CZeta(i)]
    \o [i \in 1..20 |-> CGolomb(FromInt(i))]
    \o [i \in 1..10 |-> CExpGolomb(i - 1)]
    \o [i \in 1..10 |-> CRice(i - 1)]
    \o [i \in 1..10 |-> CPi(i + 1)]
NT == Len(Tracked)

\* length as a natural (the unary parts do not fit in TLC integers)
CLenN(c, n) ==
    CASE c.f = "unary"  -> Inc(n)
      [] c.f = "rice"   -> Add(ShiftR(n, c.k), FromInt(1 + c.k))
      [] c.f = "golomb" -> LET qr == DivMod(n, c.b) IN Add(qr[1], FromInt(1 + LenMinBin(qr[2], c.b)))
      [] OTHER          -> FromInt(CLen(c, n))

Empty == [total |-> <<>>, t |-> [i \in 1..NT |-> <<>>]]
Update(s, n, count) == [total |-> Add(s.total, count),
                        t |-> [i \in 1..NT |-> Add(s.t[i], Mul(CLenN(Tracked[i], n), count))]]
Plus(a, b) == [total |-> Add(a.total, b.total), t |-> [i \in 1..NT |-> Add(a.t[i], b.t[i])]]

MinIdx(s) == CHOOSE i \in 1..NT : \A j \in 1..NT : Leq(s.t[i], s.t[j])
MinCost(s) == s.t[MinIdx(s)]
\* any tracked code whose total is the minimum is a correct answer (ties are not ordered)
SameTracked(a, b) == a.f = b.f /\ a.k = b.k /\ a.b = b.b
BestOK(s, c, cost) == cost = MinCost(s) /\ \E i \in 1..NT : SameTracked(Tracked[i], c) /\ s.t[i] = cost
=============================================================================
