-------------------------------- MODULE Stats --------------------------------
(***************************************************************************)
(* CodesStats (src/utils/stats.rs): for every tracked code the total       *)
(* number of bits needed to write the values observed so far, and the      *)
(* number of values.  Totals are naturals (bit sequences): a single large  *)
(* value already costs 2^60 bits in unary.                                 *)
(* Tracked codes with the documented index -> parameter mapping:           *)
(*   zeta[i] = zeta_(i+1), golomb[i] = Golomb_(i+1), exp_golomb[i] = k = i, *)
(*   rice[i] = Rice_i, pi[i] = pi_(i+2)       (default sizes 10/20/10/10/10) *)
(***************************************************************************)
EXTENDS Codes

\* sz = [zeta, golomb, exp_golomb, rice, pi]: how many codes of each family are
\* tracked (the const generics of CodesStats; defaults 10, 20, 10, 10, 10)
DefaultSizes == [zeta |-> 10, golomb |-> 20, exp_golomb |-> 10, rice |-> 10, pi |-> 10]
TrackedOf(sz) ==
    <<CUnary, CGamma, CDelta, COmega, CVByteBe>>
    \o [i \in 1..sz.zeta |-> CZeta(i)]
    \o [i \in 1..sz.golomb |-> CGolomb(FromInt(i))]
    \o [i \in 1..sz.exp_golomb |-> CExpGolomb(i - 1)]
    \o [i \in 1..sz.rice |-> CRice(i - 1)]
    \o [i \in 1..sz.pi |-> CPi(i + 1)]
NTOf(sz) == 5 + sz.zeta + sz.golomb + sz.exp_golomb + sz.rice + sz.pi

\* length as a natural (the unary parts do not fit in TLC integers)
CLenN(c, n) ==
    CASE c.f = "unary"  -> Inc(n)
      [] c.f = "rice"   -> Add(ShiftR(n, c.k), FromInt(1 + c.k))
      [] c.f = "golomb" -> LET qr == DivMod(n, c.b) IN Add(qr[1], FromInt(1 + LenMinBin(qr[2], c.b)))
      [] OTHER          -> FromInt(CLen(c, n))

Empty(sz) == [sz |-> sz, total |-> <<>>, t |-> [i \in 1..NTOf(sz) |-> <<>>]]
Update(s, n, count) == [s EXCEPT !.total = Add(@, count),
                                 !.t = LET tr == TrackedOf(s.sz)
                                       IN  [i \in 1..NTOf(s.sz) |-> Add(s.t[i], Mul(CLenN(tr[i], n), count))]]
Plus(a, b) == [a EXCEPT !.total = Add(@, b.total), !.t = [i \in 1..NTOf(a.sz) |-> Add(a.t[i], b.t[i])]]

MinIdx(s) == CHOOSE i \in 1..NTOf(s.sz) : \A j \in 1..NTOf(s.sz) : Leq(s.t[i], s.t[j])
MinCost(s) == s.t[MinIdx(s)]
\* any tracked code whose total is the minimum is a correct answer (ties are not ordered)
SameTracked(a, b) == a.f = b.f /\ a.k = b.k /\ a.b = b.b
BestOK(s, c, cost) == cost = MinCost(s) /\ \E i \in 1..NTOf(s.sz) : SameTracked(TrackedOf(s.sz)[i], c) /\ s.t[i] = cost
=============================================================================
