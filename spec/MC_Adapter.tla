----------------------------- MODULE MC_Adapter -----------------------------
(* Every fault schedule of the byte stream under a word adapter (small     *)
(* words, few words): the environment picks the outcome of every call.     *)
EXTENDS WordAdapterIO, TLC
CONSTANTS WBytes, NWordsC
WordsConst == [i \in 1..NWordsC |-> [j \in 1..WBytes |-> 16 * i + j]]
Flat == LET F[i \in 0..NWordsC] == IF i = 0 THEN <<>> ELSE F[i - 1] \o WordsConst[i] IN F[NWordsC]

VARIABLES w, todo, r
vars == <<w, todo, r>>

Init == w = NewW /\ todo = WordsConst /\ r = NewR(Flat, WBytes)

Outs == {"bytes", "int", "fail"}
WNext == /\ UNCHANGED r
         /\ \/ todo # <<>> /\ \E w2 \in {[w EXCEPT !.rem = Head(todo), !.cur = Head(todo), !.st = "busy"]} :
                 WCallStep(w, Head(todo), w2) /\ w' = w2 /\ todo' = Tail(todo)
            \/ /\ UNCHANGED todo
               /\ \E out \in Outs, k \in 0..WBytes :
                    \E st2 \in {"busy", "single", "mustfail"} :
                      LET w2 == IF out = "bytes"
                                THEN [w EXCEPT !.sink = @ \o SubSeq(w.rem, 1, k), !.rem = SubSeq(w.rem, k + 1, Len(w.rem)), !.st = st2]
                                ELSE [w EXCEPT !.st = st2]
                      IN  k <= Len(w.rem) /\ EnvWriteStep(w, w.rem, out, k, w2) /\ w' = w2
            \/ /\ UNCHANGED todo
               /\ \E res \in {"ok", "err"} :
                    \E w2 \in {[w EXCEPT !.acked = @ \o w.cur, !.rem = <<>>, !.st = "idle"], [w EXCEPT !.st = "failed"]} :
                      WRetStep(w, res, w2) /\ w' = w2
RNext == /\ UNCHANGED <<w, todo>>
         /\ \/ \E r2 \in {[r EXCEPT !.got = <<>>, !.st = "busy"]} : RCallStep(r, r2) /\ r' = r2
            \/ \E out \in Outs, k \in 0..WBytes :
                 LET data == SubSeq(r.src, r.rpos + 1, r.rpos + k)
                 IN  /\ r.rpos + k <= Len(r.src)
                     /\ \E st2 \in {"busy", "mustfail"} :
                          LET r2 == IF out = "bytes" THEN [r EXCEPT !.got = @ \o data, !.rpos = @ + k, !.st = st2]
                                    ELSE [r EXCEPT !.st = st2]
                          IN  EnvReadStep(r, r.wb - Len(r.got), out, IF out = "bytes" THEN data ELSE <<>>, r2) /\ r' = r2
            \/ \E res \in {"ok", "err"} :
                 \E r2 \in {[r EXCEPT !.out = @ \o r.got, !.st = "idle"], [r EXCEPT !.st = "failed"]} :
                   RRetStep(r, res, r.got, r2) /\ r' = r2
Next == WNext \/ RNext
Spec == Init /\ [][Next]_vars

WLossFree == LossFree(w)
RExact == ReadExact(r)
=============================================================================
