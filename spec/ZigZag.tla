------------------------------- MODULE ZigZag -------------------------------
(***************************************************************************)
(* The signed/natural bijection of src/codes/mod.rs (ToNat / ToInt):       *)
(*   x >= 0  |->  2x          x < 0  |->  -2x - 1                          *)
(* on the integers, and its form on two's-complement vectors of width w    *)
(* (derived from the arithmetic definition, not from the library's         *)
(* shift/xor expression).                                                  *)
(***************************************************************************)
EXTENDS BitSeqs

ToNatI(x) == IF x >= 0 THEN 2 * x ELSE -2 * x - 1
ToIntI(y) == IF y % 2 = 0 THEN y \div 2 ELSE -((y + 1) \div 2)

\* a signed value as a two's-complement vector of width w (MSB first);
\* the natural it maps to, as a natural
ToNatV(xv) ==
    LET w == Len(xv)
    IN  IF xv[1] = 0 THEN ShiftL(Norm(xv), 1)
        ELSE Dec1(ShiftL(Sub(Pow2(w), Norm(xv)), 1))              \* 2 * (2^w - X) - 1
\* a natural y < 2^w -> the two's-complement vector of the integer it maps to
ToIntV(y, w) ==
    IF y = <<>> \/ y[Len(y)] = 0 THEN Pad(ShiftR(y, 1), w)
    ELSE LET m == ShiftR(Inc(y), 1)                               \* (y + 1) / 2 >= 1
         IN  Low(Sub(Pow2(w), m), w)                              \* 2^w - m, as w bits
=============================================================================
