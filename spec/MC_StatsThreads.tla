-------------------------- MODULE MC_StatsThreads --------------------------
(***************************************************************************)
(* Threads updating one statistics object through the shared wrapper.      *)
(* Each update is "read the total, compute, write back"; the wrapper's     *)
(* mutex makes it one critical section.  With the lock every interleaving  *)
(* ends with total = sum of all contributions and count = number of        *)
(* values; without it (UseLock = FALSE) TLC finds a lost update.           *)
(***************************************************************************)
EXTENDS Naturals, Sequences, FiniteSets, TLC
CONSTANTS Threads, PerThread, UseLock
\* thread t observes values with lengths Len(t, i)
LenOf(t, i) == 3 * t + i
VARIABLES total, count, lock, pc, idx, tmpT, tmpC
vars == <<total, count, lock, pc, idx, tmpT, tmpC>>
Init == /\ total = 0 /\ count = 0 /\ lock = 0
        /\ pc = [t \in Threads |-> "acquire"] /\ idx = [t \in Threads |-> 1]
        /\ tmpT = [t \in Threads |-> 0] /\ tmpC = [t \in Threads |-> 0]
Acquire(t) == /\ pc[t] = "acquire" /\ idx[t] <= PerThread
              /\ (UseLock => lock = 0) /\ lock' = IF UseLock THEN t ELSE lock
              /\ pc' = [pc EXCEPT ![t] = "read"] /\ UNCHANGED <<total, count, idx, tmpT, tmpC>>
Read(t) == /\ pc[t] = "read" /\ tmpT' = [tmpT EXCEPT ![t] = total] /\ tmpC' = [tmpC EXCEPT ![t] = count]
           /\ pc' = [pc EXCEPT ![t] = "write"] /\ UNCHANGED <<total, count, lock, idx>>
Write(t) == /\ pc[t] = "write" /\ total' = tmpT[t] + LenOf(t, idx[t]) /\ count' = tmpC[t] + 1
            /\ pc' = [pc EXCEPT ![t] = "release"] /\ UNCHANGED <<lock, idx, tmpT, tmpC>>
Release(t) == /\ pc[t] = "release" /\ lock' = IF UseLock THEN 0 ELSE lock
              /\ idx' = [idx EXCEPT ![t] = @ + 1] /\ pc' = [pc EXCEPT ![t] = "acquire"]
              /\ UNCHANGED <<total, count, tmpT, tmpC>>
Next == \E t \in Threads : Acquire(t) \/ Read(t) \/ Write(t) \/ Release(t)
Spec == Init /\ [][Next]_vars
Quiescent == \A t \in Threads : pc[t] = "acquire" /\ idx[t] > PerThread
RECURSIVE SumT(_, _)
SumT(S, acc) == IF S = {} THEN acc ELSE LET t == CHOOSE x \in S : TRUE
                                        IN SumT(S \ {t}, acc + LenOf(t, 1) + (IF PerThread >= 2 THEN LenOf(t, 2) ELSE 0) + (IF PerThread >= 3 THEN LenOf(t, 3) ELSE 0))
Exact == Quiescent => (total = SumT(Threads, 0) /\ count = Cardinality(Threads) * PerThread)
MutualExclusion == UseLock => Cardinality({t \in Threads : pc[t] \in {"read", "write", "release"}}) <= 1
=============================================================================
