------------------------- MODULE Trace_WordBackend -------------------------
(* Trace validation of the in-memory word streams against WordBackend.     *)
(* Words are logged as their bytes; only equality and zero matter.         *)
EXTENDS WordBackend, Integers, TLC, Json, IOUtils
Max2(a, b) == IF a >= b THEN a ELSE b
BS == INSTANCE BitSeqs
ZeroWord == <<256>>

Rec == ndJsonDeserialize(IOEnv.TRACE)
N == Len(Rec)

VARIABLES l, bs
vars == <<l, bs>>

Ev == Rec[l]
Is(op) == l <= N /\ Rec[l].op = op
Step == l' = l + 1
Put(f, k, v) == [x \in (DOMAIN f) \cup {k} |-> IF x = k THEN v ELSE f[x]]

IsZeroWord(w) == \A i \in 1..Len(w) : w[i] = 0
\* a word is logged as its bytes; the all-zero word is the specification's Zero
Tok(w) == IF IsZeroWord(w) THEN Zero ELSE w
Toks(ws) == [i \in 1..Len(ws) |-> Tok(ws[i])]

Init == l = 1 /\ bs = <<>>
Reset == Is("reset") /\ Step /\ bs' = <<>>
NewB == Is("wb_new") /\ Step /\ bs' = Put(bs, Ev.o, New(Ev.kind, Toks(Ev.data)))

\* ---- positions beyond TLC's integers (set_word_pos takes a u64): logged as 8 bytes and kept
\* as a bit sequence in the field `big'; the cursor field is then -1.  Only the zero-extended
\* reader accepts them (any position, exactly); the others reject and do not move.
Small(b) == b.cur >= 0
HasBig(b) == "big" \in DOMAIN b
SetPosBig == /\ Is("wb_setpos_big") /\ Step
             /\ LET b == bs[Ev.o]  p == BS!BytesToNat(Ev.pb)
                IN  IF b.kind = "inf"
                    THEN Ev.res = "ok" /\ bs' = [bs EXCEPT ![Ev.o] = [x \in (DOMAIN b) \cup {"big"} |->
                                                      IF x = "big" THEN p ELSE IF x = "cur" THEN -1 ELSE b[x]]]
                    ELSE Ev.res = "err" /\ UNCHANGED bs
PosBig == /\ Is("wb_pos_big") /\ Step /\ UNCHANGED bs
          /\ LET b == bs[Ev.o] IN BS!BytesToNat(Ev.ret) = IF Small(b) THEN BS!FromInt(b.cur) ELSE b.big
\* reading there: a zero word, the cursor moves on by one
ReadBig == /\ Is("wb_read_big") /\ Step
           /\ LET b == bs[Ev.o]
              IN  /\ ~Small(b) /\ b.kind = "inf" /\ Ev.res = "ok" /\ Tok(Ev.v) = Zero
                  /\ bs' = [bs EXCEPT ![Ev.o] = [b EXCEPT !.big = BS!Inc(@)]]

\* candidate successors: the step predicates pick the right one
Read == /\ Is("wb_read") /\ Step /\ Small(bs[Ev.o])
        /\ LET b == bs[Ev.o]
           IN  \E b2 \in {b, [b EXCEPT !.cur = @ + 1]} :
                 /\ ReadStep(b, Ev.res, Tok(Ev.v), b2)
                 /\ bs' = [bs EXCEPT ![Ev.o] = b2]

Write == /\ Is("wb_write") /\ Step /\ Small(bs[Ev.o])
         /\ LET b == bs[Ev.o]  v == Tok(Ev.v)
                 stored == [b EXCEPT !.data = [i \in 1..Max2(Len(b.data), b.cur + 1) |->
                                                 IF i = b.cur + 1 THEN v
                                                 ELSE IF i <= Len(b.data) THEN b.data[i] ELSE Zero],
                                    !.cur = @ + 1]
            IN  \E b2 \in {b, stored} :
                  /\ WriteStep(b, v, Ev.res, b2)
                  /\ bs' = [bs EXCEPT ![Ev.o] = b2]

Pos == Is("wb_pos") /\ Step /\ Small(bs[Ev.o]) /\ PosStep(bs[Ev.o], Ev.ret) /\ UNCHANGED bs
LenE == Is("wb_len") /\ Step /\ LenStep(bs[Ev.o], Ev.ret) /\ UNCHANGED bs
Inner == Is("wb_inner") /\ Step /\ InnerStep(bs[Ev.o], Toks(Ev.data)) /\ UNCHANGED bs

SetPos == /\ Is("wb_setpos") /\ Step
          /\ LET b == bs[Ev.o]
             IN  \E b2 \in {b, [b EXCEPT !.cur = Ev.p]} :
                   /\ SetPosStep(b, Ev.p, Ev.res, b2)
                   /\ bs' = [bs EXCEPT ![Ev.o] = b2]

Next == SetPosBig \/ PosBig \/ ReadBig \/ Reset \/ NewB \/ Read \/ Write \/ Pos \/ LenE \/ Inner \/ SetPos
Spec == Init /\ [][Next]_vars

Accepted ==
    LET d == TLCGet("stats").diameter
    IN  IF d - 1 = N THEN TRUE
        ELSE PrintT(<<"REJECTED", d, IF d <= N THEN Rec[d] ELSE "eof">>) /\ FALSE
=============================================================================
