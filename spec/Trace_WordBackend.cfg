SPECIFICATION Spec
CONSTANT Zero <- ZeroWord
POSTCONDITION Accepted
CHECK_DEADLOCK FALSE
