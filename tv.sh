#!/bin/sh
# tv.sh <Trace module> <trace file> [metadir]  -- validate one trace with TLC
mod=$1; export TRACE=$2; md=${3:-/tmp/tlcw/tv.$$}
cd /verif/spec
TLC_JAVA_OPTS="-Dtlc2.tool.queue.IStateQueue=StateDeque -Xmx3g" exec timeout ${TV_TIMEOUT:-900} /verif/tlc.sh -workers 1 -metadir $md -cleanup -noGenerateSpecTE -config $mod.cfg $mod.tla
