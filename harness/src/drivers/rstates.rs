//! Spec -> implementation: for every fill state of the implementation-shaped
//! reader model (one TLC-generated shortest history per state), on every
//! reader configuration and several byte images, apply every operation of
//! the alphabet at that state (on a clone where the type allows it,
//! otherwise after re-creating the state) followed by a continuation that
//! forces refills, so that any damage to the hidden state becomes visible.
//! Every call is logged; TLC judges the trace.

use crate::dynio::*;
use crate::factory::*;
use crate::gen::*;
use crate::session::*;
use crate::trace::*;
use rand::rngs::SmallRng;
use rand::{Rng, SeedableRng};
use serde_json::Value;
use std::collections::HashSet;

#[derive(Clone, Debug)]
pub enum POp {
    Read(usize),
    Peek(usize),
    Skip(usize),
}

pub struct StatePath {
    pub w: usize,
    pub key: usize,
    pub path: Vec<POp>,
}

pub fn load_paths(file: &str) -> Vec<StatePath> {
    let mut out = vec![];
    for line in std::fs::read_to_string(file).expect("paths file").lines() {
        if line.trim().is_empty() {
            continue;
        }
        let v: Value = serde_json::from_str(line).expect("json");
        let w = v["w"].as_u64().unwrap() as usize;
        let key = v.get("bib").or(v.get("space")).and_then(|x| x.as_u64()).unwrap() as usize;
        let mut path = vec![];
        for p in v["path"].as_array().unwrap() {
            let n = p.get("n").or(p.get("x")).and_then(|x| x.as_u64()).unwrap_or(0) as usize;
            path.push(match p["op"].as_str().unwrap() {
                "read_bits" | "write_bits" => POp::Read(n),
                "peek_bits" => POp::Peek(n),
                "skip_bits" | "write_unary" => POp::Skip(n),
                o => panic!("path op {}", o),
            });
        }
        out.push(StatePath { w, key, path });
    }
    out
}

fn go_path(tr: &mut Tr, rd: &mut TRd, path: &[POp]) {
    for p in path {
        if rd.dead {
            return;
        }
        match p {
            POp::Read(n) => {
                rd.read_bits(tr, *n);
            }
            POp::Peek(n) => {
                rd.peek_bits(tr, *n);
            }
            POp::Skip(n) => {
                rd.skip_bits(tr, *n);
            }
        }
    }
}

/// forces refills and moves any stale bit through the buffer
pub fn continuation(tr: &mut Tr, rd: &mut TRd, heavy: bool) {
    let pk = rd.cfg.peek_max().min(21);
    let rounds = if heavy { 3 } else { 1 };
    for _ in 0..rounds {
        if rd.dead {
            return;
        }
        if rd.peek_bits(tr, pk).is_ok() {
            rd.skip_bits_after_peek(tr, pk);
        }
    }
    if !rd.dead {
        rd.read_bits(tr, 64);
    }
    if heavy && !rd.dead && rd.unary_safe() {
        rd.read_unary(tr);
    }
}

#[derive(Clone, Debug)]
pub enum TOp {
    Read(usize),
    PeekSkip(usize, usize),
    PeekTwice(usize),
    Skip(usize),
    Unary,
    Seek(u64),
    Bytes(usize),
    Code(CodeSpec, u8),
}

fn apply(tr: &mut Tr, rd: &mut TRd, op: &TOp) {
    match op {
        TOp::Read(n) => {
            rd.read_bits(tr, *n);
        }
        TOp::PeekSkip(n, k) => {
            if rd.peek_bits(tr, *n).is_ok() {
                rd.skip_bits_after_peek(tr, *k);
            }
        }
        TOp::PeekTwice(n) => {
            if rd.peek_bits(tr, *n).is_ok() {
                rd.peek_bits(tr, *n);
            }
        }
        TOp::Skip(n) => {
            rd.skip_bits(tr, *n);
        }
        TOp::Unary => {
            if rd.unary_safe() {
                rd.read_unary(tr);
            }
        }
        TOp::Seek(p) => {
            rd.set_bit_pos(tr, *p);
        }
        TOp::Bytes(k) => {
            rd.read_bytes(tr, *k);
        }
        TOp::Code(c, opt) => {
            if rd.unary_safe() {
                rd.read_code(tr, c, *opt);
            }
        }
    }
}

fn boundary(w: usize, max: usize) -> Vec<usize> {
    let mut v: HashSet<usize> = [0, 1, 2, 7, 8, 9, 15, 16, 17, 31, 32, 33, 62, 63, 64].into_iter().collect();
    for k in [w - 1, w, w + 1, 2 * w - 1, 2 * w, 2 * w + 1, 3 * w, 3 * w + 1] {
        v.insert(k);
    }
    let mut v: Vec<usize> = v.into_iter().filter(|x| *x <= max).collect();
    v.sort();
    v
}

pub fn alphabet(cfg: &RCfg, ops: &str, full: bool, nbits: u64) -> Vec<TOp> {
    let w = cfg.w;
    let pm = cfg.peek_max();
    let mut a = vec![];
    match ops {
        "c02" => {
            let ns: Vec<usize> = if full { (0..=64).collect() } else { boundary(w, 64) };
            for n in ns {
                a.push(TOp::Read(n));
            }
            let ps: Vec<usize> = if full { (1..=pm).collect() } else { boundary(w, pm).into_iter().filter(|x| *x >= 1).collect() };
            for n in ps {
                a.push(TOp::PeekTwice(n));
                for k in [0, 1, n / 2, n] {
                    a.push(TOp::PeekSkip(n, k));
                }
            }
            let ss: Vec<usize> = if full { (0..=3 * w + 1).collect() } else { boundary(w, 3 * w + 1) };
            for n in ss {
                a.push(TOp::Skip(n));
            }
            a.push(TOp::Unary);
        }
        "c07" => {
            let ps: Vec<u64> = if full || nbits <= 6 * w as u64 {
                (0..=nbits).collect()
            } else {
                (0..=nbits).filter(|p| [0, 1, 2, w as u64 - 1].contains(&(p % w as u64)) || p % 37 == 0).collect()
            };
            for p in ps {
                a.push(TOp::Seek(p));
            }
        }
        "c12" => {
            let ks: Vec<usize> = if full { (0..=40).collect() } else { vec![0, 1, 2, 3, 7, 8, 9, 15, 16, 17, 24, 33, 40] };
            for k in ks {
                a.push(TOp::Bytes(k));
            }
        }
        o => panic!("unknown op set {}", o),
    }
    a
}

/// re-create a state on a reader that cannot be cloned
fn restate(tr: &mut Tr, rd: &mut TRd, path: &[POp]) -> bool {
    match rd.set_bit_pos(tr, 0) {
        Some(Out::Ok(())) => {
            go_path(tr, rd, path);
            !rd.dead
        }
        _ => false,
    }
}

pub fn images(rng: &mut SmallRng, cfg: &RCfg, n: usize) -> Vec<Vec<u8>> {
    let nbytes = (cfg.w / 8) * 12;
    let nbytes = nbytes.div_ceil(8) * 8;
    // first a dense random image (every word different: misplaced reads and stale bits both show),
    // then all ones (missing bits show), then the other characters
    let mut first: Vec<u8> = (0..nbytes).map(|_| rng.random()).collect();
    if let Some(l) = first.last_mut() {
        *l |= 0x81;
    }
    let mut v = vec![first];
    if cfg.kind == "unbuf" {
        // long zero runs (a one every 150..250 bits): unary reads that cross whole words from every offset
        let mut sparse = vec![0u8; nbytes];
        let mut p = rng.random_range(100..200usize);
        while p < 8 * nbytes {
            sparse[p / 8] |= 1 << (p % 8);
            p += rng.random_range(150..250usize);
        }
        if let Some(l) = sparse.last_mut() {
            *l |= 0x81;
        }
        v.push(sparse);
    }
    if n >= 2 {
        v.push(vec![0xFFu8; nbytes]);
    }
    while v.len() < n {
        v.push(rand_image(rng, nbytes));
    }
    v
}

pub fn run(tr: &mut Tr, seed: u64, paths_file: &str, ops: &str, full: bool, shard: usize, nshards: usize, nimages: usize) -> (u64, u64) {
    let mut rng = SmallRng::seed_from_u64(seed ^ 0x5253);
    let paths = load_paths(paths_file);
    let mut tests = 0u64;
    let mut distinct: HashSet<(usize, usize, String)> = HashSet::new();
    for (ci, cfg) in all_rcfgs().iter().enumerate() {
        if ci % nshards != shard {
            continue;
        }
        for img in images(&mut rng, cfg, nimages) {
            let nbits = 8 * img.len() as u64;
            // the unbuffered reader's hidden state is its bit offset within a word
            // (reached by a skip, by a read, and - for the aligned ones - one and two words further on)
            let mut unbuf_paths: Vec<StatePath> = (0..64).map(|k| StatePath { w: 64, key: k, path: vec![POp::Skip(k)] }).collect();
            for k in [0usize, 1, 63] {
                unbuf_paths.push(StatePath { w: 64, key: 64 + k, path: vec![POp::Skip(64 + k)] });
                unbuf_paths.push(StatePath { w: 64, key: 128 + k, path: vec![POp::Read(64), POp::Read(64), POp::Read(k)] });
                unbuf_paths.push(StatePath { w: 64, key: 192 + k, path: vec![POp::Read(13), POp::Skip(51 + 64 + k)] });
            }
            let mut plist: Vec<&StatePath> = if cfg.kind == "unbuf" {
                unbuf_paths.iter().collect()
            } else {
                paths.iter().filter(|p| p.w == cfg.w).collect()
            };
            // tail states: r bits before the end of the data (the backend has nothing more to give:
            // a strict one fails, a zero-extended one serves zeros), reached by one long skip or by a
            // skip and a short read
            let w = cfg.w;
            let mut tails: Vec<StatePath> = vec![];
            for r in [0usize, 1, 2, 7, 8, 9, w - 1, w, w + 1, 2 * w - 1, 2 * w, 2 * w + 1] {
                let to = nbits as usize - r;
                tails.push(StatePath { w, key: 10_000 + r, path: vec![POp::Skip(to)] });
                tails.push(StatePath { w, key: 20_000 + r, path: vec![POp::Skip(to - 3), POp::Read(3)] });
            }
            if ops != "c07" {
                plist.extend(tails.iter());
            }
            let alpha = alphabet(cfg, ops, full, nbits);
            tr.reset();
            let mut base = TRd::new(tr, cfg, &img);
            let cloneable = base.r.try_clone().is_some();
            for sp in plist {
                if base.dead {
                    tr.reset();
                    base = TRd::new(tr, cfg, &img);
                }
                if !restate(tr, &mut base, &sp.path) {
                    continue;
                }
                for (oi, op) in alpha.iter().enumerate() {
                    tests += 1;
                    distinct.insert((ci, sp.key, format!("{:?}", std::mem::discriminant(op))));
                    let heavy = oi % 7 == 0;
                    if cloneable {
                        let mut c = base.try_clone(tr).unwrap();
                        apply(tr, &mut c, op);
                        if !c.dead {
                            continuation(tr, &mut c, heavy);
                        }
                        c.drop_obj(tr);
                    } else {
                        apply(tr, &mut base, op);
                        if !base.dead {
                            continuation(tr, &mut base, heavy);
                        }
                        if base.dead {
                            tr.reset();
                            base = TRd::new(tr, cfg, &img);
                        }
                        if !restate(tr, &mut base, &sp.path) {
                            break;
                        }
                    }
                }
            }
            let _ = rng.random::<u8>();
        }
    }
    (tests, distinct.len() as u64)
}
