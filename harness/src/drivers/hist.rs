//! Random operation histories: a writer history, replicated on every writer
//! word size, then read back by several reader configurations with peeks,
//! skips, clones, seeks and byte reads mixed in.

use crate::dynio::*;
use crate::factory::*;
use crate::gen::*;
use crate::session::*;
use crate::trace::*;
use rand::rngs::SmallRng;
use rand::{Rng, SeedableRng};

#[derive(Clone, Debug)]
pub enum Item {
    Bits { v: u64, n: usize },
    Unary(u64),
    Code { c: CodeSpec, opt: u8, v: u64 },
    Bytes(Vec<u8>),
    Flush,
}

pub fn rand_write_opt(rng: &mut SmallRng, c: &CodeSpec) -> u8 {
    match c.f {
        Fam::Gamma => [0, 1, OPT_DEFAULT][rng.random_range(0..3)],
        Fam::Delta => [0, 1, 2, 3, OPT_DEFAULT][rng.random_range(0..5)],
        Fam::Zeta => [0, 1, 4, 5, 8, OPT_DEFAULT][rng.random_range(0..6)],
        _ => 0,
    }
}

/// table options a reader may use: on readers whose look-ahead is narrower
/// than a table's index (diagnosed at construction) that table is not used.
pub fn rand_read_opt(rng: &mut SmallRng, c: &CodeSpec, cfg: &RCfg) -> u8 {
    let safe = cfg.peek_max() >= 16;
    match c.f {
        Fam::Gamma if safe => [0, 1, OPT_DEFAULT][rng.random_range(0..3)],
        Fam::Delta if safe => [0, 1, 2, 3, OPT_DEFAULT][rng.random_range(0..5)],
        Fam::Zeta if safe => [0, 1, 4, 8, OPT_DEFAULT][rng.random_range(0..5)],
        Fam::Zeta => [0, 4][rng.random_range(0..2)],
        Fam::ExpGolomb if !safe => 0,
        _ => 0,
    }
}

pub fn rand_items(rng: &mut SmallRng, len: usize, with_flush: bool, with_bytes: bool) -> Vec<Item> {
    let mut items = vec![];
    for _ in 0..len {
        let it = match rng.random_range(0..100) {
            0..=29 => {
                let n = match rng.random_range(0..10) {
                    0 => 0,
                    1 => 64,
                    2 => 63,
                    3 => 1,
                    _ => rng.random_range(0..=64),
                };
                // dirty high bits most of the time: the writer must ignore them
                let v = match rng.random_range(0..4) {
                    0 => u64::MAX,
                    1 => rand_value_bits(rng, n as u32),
                    _ => rng.random::<u64>(),
                };
                Item::Bits { v, n }
            }
            30..=44 => {
                let x = match rng.random_range(0..10) {
                    0 => rng.random_range(0..700),
                    1..=3 => rng.random_range(0..140),
                    _ => rng.random_range(0..20),
                };
                Item::Unary(x)
            }
            45..=89 => {
                let (c, v) = rand_code_value(rng, 80);
                let opt = rand_write_opt(rng, &c);
                Item::Code { c, opt, v }
            }
            90..=95 if with_bytes => {
                let k = rng.random_range(0..=40);
                Item::Bytes((0..k).map(|_| rng.random()).collect())
            }
            96..=99 if with_flush => Item::Flush,
            _ => Item::Unary(rng.random_range(0..5)),
        };
        items.push(it);
    }
    items
}

/// clean the argument when the build checks it
fn clean(v: u64, n: usize) -> u64 {
    if cfg!(feature = "checks") && n < 64 {
        v & ((1u64 << n) - 1)
    } else {
        v
    }
}

/// Apply items to a writer; returns the start bit position of every item
/// (driver bookkeeping from the returned lengths; never used as an oracle).
pub fn apply_items(tr: &mut Tr, w: &mut TW, items: &[Item]) -> Vec<u64> {
    let mut starts = vec![];
    let mut total = 0u64;
    let wbits = w.cfg.w as u64;
    for it in items {
        if w.dead {
            break;
        }
        starts.push(total);
        match it {
            Item::Bits { v, n } => {
                if let Out::Ok(k) = w.write_bits(tr, clean(*v, *n), *n) {
                    total += k as u64;
                }
            }
            Item::Unary(x) => {
                if let Out::Ok(k) = w.write_unary(tr, *x) {
                    total += k as u64;
                }
            }
            Item::Code { c, opt, v } => {
                if let Out::Ok(k) = w.write_code(tr, c, *opt, *v) {
                    total += k as u64;
                }
            }
            Item::Bytes(bs) => match w.write_bytes(tr, bs) {
                Some(Out::Ok(k)) => total += 8 * k as u64,
                Some(_) => {}
                None => {
                    for b in bs {
                        if let Out::Ok(k) = w.write_bits(tr, *b as u64, 8) {
                            total += k as u64;
                        }
                    }
                }
            },
            Item::Flush => {
                if w.flush(tr).is_ok() {
                    total = total.div_ceil(wbits) * wbits;
                }
            }
        }
    }
    starts.push(total);
    starts
}

fn pad8(mut v: Vec<u8>) -> Vec<u8> {
    while v.len() % 8 != 0 {
        v.push(0);
    }
    v
}

/// Read the items back, with random extras.
pub fn read_back(tr: &mut Tr, rng: &mut SmallRng, rd: &mut TRd, items: &[Item], starts: &[u64], wbits: u64) {
    let mut i = 0usize;
    let mut jumps = 0;
    while i < items.len() && !rd.dead {
        // occasional seek to the start of a random item
        if rd.seekable && jumps < 6 && rng.random_range(0..25) == 0 {
            let j = rng.random_range(0..items.len());
            if let Some(r) = rd.set_bit_pos(tr, starts[j]) {
                if r.is_ok() {
                    i = j;
                    jumps += 1;
                }
            }
            continue;
        }
        // occasional peek
        if rng.random_range(0..4) == 0 {
            let n = rng.random_range(1..=rd.cfg.peek_max());
            if !(rd.cfg.strict()) || true {
                let r = rd.peek_bits(tr, n);
                if rd.dead {
                    break;
                }
                if r.is_ok() && rng.random_range(0..3) == 0 {
                    rd.peek_bits(tr, n);
                }
            }
        }
        // occasional long skip over the next two or three items at once (wider than a word, often wider than the buffer)
        if i + 3 < starts.len() && rng.random_range(0..10) == 0 {
            let k = rng.random_range(2..=3usize);
            let n = (starts[i + k] - starts[i]) as usize;
            if n <= 4000 {
                rd.skip_bits(tr, n);
                i += k;
                continue;
            }
        }
        // occasional clone that runs ahead independently
        if rng.random_range(0..12) == 0 {
            if let Some(mut c) = rd.try_clone(tr) {
                let n = rng.random_range(0..=64);
                c.read_bits(tr, n);
                if !c.dead {
                    c.read_bits(tr, rng.random_range(0..=64));
                }
                c.drop_obj(tr);
            }
        }
        match &items[i] {
            Item::Bits { n, .. } => {
                match rng.random_range(0..6) {
                    0 => {
                        rd.skip_bits(tr, *n);
                    }
                    1 if *n >= 1 && *n <= rd.cfg.peek_max() => {
                        // table style: peek then skip-after-peek in two parts
                        if rd.peek_bits(tr, *n).is_ok() {
                            let k = rng.random_range(0..=*n);
                            rd.skip_bits_after_peek(tr, k);
                            if !rd.dead {
                                rd.read_bits(tr, *n - k);
                            }
                        }
                    }
                    2 if *n > 2 => {
                        let k = rng.random_range(0..=*n);
                        rd.read_bits(tr, k);
                        if !rd.dead {
                            rd.read_bits(tr, *n - k);
                        }
                    }
                    _ => {
                        rd.read_bits(tr, *n);
                    }
                }
            }
            Item::Unary(x) => {
                if rng.random_range(0..5) == 0 {
                    rd.skip_bits(tr, *x as usize + 1);
                } else {
                    rd.read_unary(tr);
                }
            }
            Item::Code { c, .. } => {
                let opt = rand_read_opt(rng, c, &rd.cfg);
                rd.read_code(tr, c, opt);
            }
            Item::Bytes(bs) => {
                if rd.read_bytes(tr, bs.len()).is_none() {
                    rd.skip_bits(tr, 8 * bs.len());
                }
            }
            Item::Flush => {
                let pad = starts[i + 1] - starts[i];
                debug_assert!(pad < wbits);
                rd.skip_bits(tr, pad as usize);
            }
        }
        i += 1;
    }
}

pub fn run(tr: &mut Tr, seed: u64, histories: usize, len: usize) {
    let mut rng = SmallRng::seed_from_u64(seed ^ 0x4849_5354);
    let wcfgs = all_wcfgs();
    let rcfgs = all_rcfgs();
    for h in 0..histories {
        tr.reset();
        let le = rng.random_bool(0.5);
        let items = rand_items(&mut rng, len, h % 3 == 0, true);
        // the same history on every writer word size, random backend kind
        let mut images: Vec<(usize, Vec<u8>, Vec<u64>)> = vec![];
        for w in WRITER_WORDS {
            let backend = WRITER_BACKENDS[rng.random_range(0..WRITER_BACKENDS.len())];
            let cfg = wcfgs.iter().find(|c| c.le == le && c.w == w && c.backend == backend).unwrap().clone();
            let mut tw = TW::new(tr, &cfg, 1 << 12);
            let starts = apply_items(tr, &mut tw, &items);
            if tw.dead {
                continue;
            }
            // flush in the middle is idempotent
            if rng.random_range(0..3) == 0 {
                tw.flush(tr);
                tw.flush(tr);
            }
            let how = ["flush", "drop", "into_inner"][rng.random_range(0..3)];
            tw.close(tr, how);
            let img = tw.w.image();
            // slice backends have the untouched tail of the slice after the data
            let used = (starts[starts.len() - 1].div_ceil(w as u64) * w as u64 / 8) as usize;
            let img = if img.len() > used { img[..used].to_vec() } else { img };
            images.push((w, img, starts));
        }
        if images.is_empty() {
            continue;
        }
        tr.reset();
        // read back by two reader configurations from the image of a random writer
        for _ in 0..2 {
            let (w, img, starts) = &images[rng.random_range(0..images.len())];
            let cands: Vec<&RCfg> = rcfgs.iter().filter(|c| c.le == le).collect();
            let rcfg = cands[rng.random_range(0..cands.len())].clone();
            let bytes = pad8(img.clone());
            let mut rd = TRd::new(tr, &rcfg, &bytes);
            read_back(tr, &mut rng, &mut rd, &items, starts, *w as u64);
            rd.drop_obj(tr);
        }
    }
}
