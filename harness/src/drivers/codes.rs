//! Codes: every family x parameter x value of the grids is (a) written alone
//! at a word boundary by writers of every word size with every table option
//! (the trace carries the delivered bytes: TLC compares them with the
//! codeword of the published definition, and the returned length with the
//! closed-form length); (b) written back to back with raw fields and read
//! back by every reader with every table option at positions that vary
//! naturally; (c) embedded after o junk bits for every o in 0..=2W+1 and
//! followed by different tails.  Length functions are logged as `len' events.

use crate::dynio::*;
use crate::factory::*;
use crate::gen::*;
use crate::session::*;
use crate::trace::*;
use dsi_bitstream::prelude::*;
use rand::rngs::SmallRng;
use rand::{Rng, SeedableRng};
use std::collections::HashSet;

pub fn all_codes(full: bool) -> Vec<CodeSpec> {
    let mut v = vec![
        CodeSpec::simple(Fam::Unary),
        CodeSpec::simple(Fam::Gamma),
        CodeSpec::simple(Fam::Delta),
        CodeSpec::simple(Fam::Omega),
        CodeSpec::simple(Fam::VByteBe),
        CodeSpec::simple(Fam::VByteLe),
    ];
    let ks: Vec<usize> = if full { (0..=63).collect() } else { vec![0, 1, 2, 3, 4, 5, 7, 8, 10, 13, 16, 31, 32, 33, 62, 63] };
    for &k in &ks {
        if k >= 1 {
            v.push(CodeSpec::k(Fam::Zeta, k));
        }
        v.push(CodeSpec::k(Fam::Pi, k));
        v.push(CodeSpec::k(Fam::Rice, k));
        v.push(CodeSpec::k(Fam::ExpGolomb, k));
    }
    let mut bs: Vec<u64> = if full { (1..=64).collect() } else { vec![1, 2, 3, 4, 5, 6, 7, 8, 9, 10, 15, 16, 17, 63, 64] };
    for i in (if full { (1..64).collect::<Vec<u32>>() } else { vec![7, 8, 20, 31, 32, 33, 52, 62, 63] }) {
        let p = 1u64 << i;
        bs.push(p - 1);
        bs.push(p);
        bs.push(p + 1);
    }
    bs.push(u64::MAX);
    bs.push(u64::MAX - 1);
    bs.sort();
    bs.dedup();
    for &b in &bs {
        v.push(CodeSpec::b(Fam::Golomb, b));
        v.push(CodeSpec::b(Fam::MinBin, b));
    }
    v
}

pub fn in_domain(c: &CodeSpec, v: u64) -> bool {
    match c.f {
        Fam::VByteBe | Fam::VByteLe => true,
        Fam::MinBin => v < c.b,
        _ => v != u64::MAX,
    }
}

/// keep the unary part of a codeword writable in practice
pub fn unary_part(c: &CodeSpec, v: u64) -> u64 {
    match c.f {
        Fam::Unary => v,
        Fam::Rice => v >> c.k,
        Fam::Golomb => v / c.b,
        _ => 0,
    }
}

pub fn values_for(c: &CodeSpec, dense: u64, max_unary: u64, rng: &mut SmallRng, nrand: usize) -> Vec<u64> {
    let mut s: HashSet<u64> = (0..dense).collect();
    for v in pow2_grid() {
        s.insert(v);
    }
    for _ in 0..nrand {
        s.insert(rng.random::<u64>() >> rng.random_range(0..64));
    }
    // around the parameter-dependent steps
    match c.f {
        Fam::Golomb | Fam::MinBin => {
            for q in 0..4u128 {
                for d in [-1i128, 0, 1] {
                    let x = q as i128 * c.b as i128 + d;
                    if x >= 0 && x < u64::MAX as i128 {
                        s.insert(x as u64);
                    }
                }
            }
            if c.b > 1 {
                let l = 63 - c.b.leading_zeros();
                let limit = ((1u128 << (l + 1)) - c.b as u128) as u64;
                for d in [-1i128, 0, 1] {
                    let x = limit as i128 + d;
                    if x >= 0 {
                        s.insert(x as u64);
                    }
                }
            }
        }
        Fam::VByteBe | Fam::VByteLe => {
            // every point where the length steps: 2^7, 2^7 + 2^14, ...
            let mut thr: u128 = 0;
            for i in 1..=9u32 {
                thr += 1u128 << (7 * i);
                for d in -2i128..=2 {
                    let x = thr as i128 + d;
                    if x >= 0 && x <= u64::MAX as i128 {
                        s.insert(x as u64);
                    }
                }
            }
        }
        Fam::Gamma | Fam::Delta | Fam::Zeta | Fam::Pi | Fam::ExpGolomb | Fam::Omega => {
            // around the limits of the encoding / length tables
            for x in [62u64, 63, 64, 65, 1021, 1022, 1023, 1024, 1025, 1026] {
                s.insert(x);
            }
        }
        Fam::Rice => {
            for q in 0..4u128 {
                for d in [-1i128, 0, 1] {
                    let x = ((q << c.k) as i128) + d;
                    if x >= 0 && x < u64::MAX as i128 {
                        s.insert(x as u64);
                    }
                }
            }
        }
        _ => {}
    }
    let mut v: Vec<u64> = s.into_iter().filter(|x| in_domain(c, *x) && unary_part(c, *x) <= max_unary).collect();
    v.sort();
    v
}

pub fn write_opts(c: &CodeSpec) -> Vec<u8> {
    match c.f {
        Fam::Gamma => vec![0, 1, OPT_DEFAULT],
        Fam::Delta => vec![0, 1, 2, 3, OPT_DEFAULT],
        Fam::Zeta if c.k == 3 => vec![0, 1, 4, 5, 8, OPT_DEFAULT],
        Fam::Zeta => vec![0, 1, OPT_DEFAULT],
        _ => vec![0],
    }
}

/// table options a reader may use; tables the reader was diagnosed as unable
/// to serve (look-ahead narrower than the table index) are left out
pub fn read_opts(c: &CodeSpec, cfg: &RCfg) -> Vec<u8> {
    let pm = cfg.peek_max();
    let g = pm >= 9;
    let d = pm >= 11;
    let z = pm >= 12;
    match c.f {
        Fam::Gamma => {
            let mut v = vec![0, OPT_DEFAULT];
            if g {
                v.push(1);
            }
            v
        }
        Fam::Delta => {
            let mut v = vec![0, OPT_DEFAULT];
            if g {
                v.push(2);
            }
            if d {
                v.push(1);
            }
            if g && d {
                v.push(3);
            }
            v
        }
        Fam::Zeta if c.k == 3 => {
            let mut v = vec![0, 4, 8, OPT_DEFAULT];
            if z {
                v.push(1);
            }
            v
        }
        Fam::Zeta => vec![0, OPT_DEFAULT],
        _ => vec![0],
    }
}

fn len_variants(c: &CodeSpec, v: u64) -> Vec<(&'static str, u8, usize)> {
    let mut out: Vec<(&'static str, u8, usize)> = vec![];
    match c.f {
        Fam::Unary => {}
        Fam::Gamma => {
            out.push(("fn", 0, len_gamma_param::<false>(v)));
            out.push(("fn", 1, len_gamma_param::<true>(v)));
            out.push(("fn", OPT_DEFAULT, len_gamma(v)));
        }
        Fam::Delta => {
            out.push(("fn", 0, len_delta_param::<false, false>(v)));
            out.push(("fn", 1, len_delta_param::<true, false>(v)));
            out.push(("fn", 2, len_delta_param::<false, true>(v)));
            out.push(("fn", 3, len_delta_param::<true, true>(v)));
            out.push(("fn", OPT_DEFAULT, len_delta(v)));
        }
        Fam::Omega => out.push(("fn", 0, len_omega(v))),
        Fam::Zeta => {
            out.push(("fn", 0, len_zeta_param::<false>(v, c.k)));
            out.push(("fn", 1, len_zeta_param::<true>(v, c.k)));
            out.push(("fn", OPT_DEFAULT, len_zeta(v, c.k)));
        }
        Fam::Pi => out.push(("fn", 0, len_pi(v, c.k))),
        Fam::Rice => out.push(("fn", 0, len_rice(v, c.k))),
        Fam::ExpGolomb => out.push(("fn", 0, len_exp_golomb(v, c.k))),
        Fam::Golomb => out.push(("fn", 0, len_golomb(v, c.b))),
        Fam::MinBin => out.push(("fn", 0, len_minimal_binary(v, c.b))),
        Fam::VByteBe | Fam::VByteLe => {
            out.push(("fn", 0, bit_len_vbyte(v)));
            out.push(("fn8", 0, 8 * byte_len_vbyte(v)));
        }
    }
    if let Some(code) = enum_of(c) {
        out.push(("enum", 0, code.len(v)));
    }
    out
}

pub fn enum_of(c: &CodeSpec) -> Option<Codes> {
    Some(match c.f {
        Fam::Unary => Codes::Unary,
        Fam::Gamma => Codes::Gamma,
        Fam::Delta => Codes::Delta,
        Fam::Omega => Codes::Omega,
        Fam::VByteBe => Codes::VByteBe,
        Fam::VByteLe => Codes::VByteLe,
        Fam::Zeta => Codes::Zeta { k: c.k },
        Fam::Pi => Codes::Pi { k: c.k },
        Fam::Rice => Codes::Rice { log2_b: c.k },
        Fam::ExpGolomb => Codes::ExpGolomb { k: c.k },
        Fam::Golomb => Codes::Golomb { b: c.b as usize },
        Fam::MinBin => return None,
    })
}

fn emit_lens(tr: &mut Tr, c: &CodeSpec, v: u64) {
    for (via, opt, l) in len_variants(c, v) {
        tr.emit(Ev::new("len").code(c, opt).s("via", via).u64("v", v).i("ret", l as i64));
    }
}

pub struct Stats {
    pub tests: u64,
    pub distinct: HashSet<(Fam, usize, u64, u64)>,
}

fn wcfg(le: bool, w: usize, backend: &'static str) -> WCfg {
    WCfg { le, w, backend, wrap: "none" }
}

/// (a) alone at a word boundary, all writer word sizes, all write options; lens
pub fn alone(tr: &mut Tr, rng: &mut SmallRng, codes: &[CodeSpec], dense: u64, words: &[usize], st: &mut Stats) {
    for c in codes {
        let vals = values_for(c, dense, 300, rng, 12);
        for le in [false, true] {
            for &w in words {
                tr.reset();
                let backend = WRITER_BACKENDS[rng.random_range(0..WRITER_BACKENDS.len())];
                let cap = vals.len() * write_opts(c).len() * (440 / w + 2) + 8;
                let mut tw = TW::new(tr, &wcfg(le, w, backend), cap);
                for (vi, &v) in vals.iter().enumerate() {
                    for opt in write_opts(c) {
                        if tw.dead {
                            break;
                        }
                        tw.write_code(tr, c, opt, v);
                        if !tw.dead {
                            tw.flush(tr);
                        }
                        st.tests += 1;
                    }
                    // the same value through the dynamic dispatch of the enumeration (one value in three)
                    if vi % 3 == 0 && c.f != Fam::MinBin && !tw.dead {
                        tw.write_code(tr, c, OPT_ENUM, v);
                        if !tw.dead {
                            tw.flush(tr);
                        }
                        st.tests += 1;
                    }
                    st.distinct.insert((c.f, c.k, c.b, v));
                }
                if !tw.dead {
                    tw.close(tr, "drop");
                }
            }
        }
        for &v in &vals {
            emit_lens(tr, c, v);
        }
    }
}

/// (b) concatenated streams read back by several readers with every read option
pub fn concat(tr: &mut Tr, rng: &mut SmallRng, codes: &[CodeSpec], dense: u64, nreaders: usize, st: &mut Stats) {
    let rcfgs = all_rcfgs();
    for c in codes {
        let mut vals = values_for(c, dense, 120, rng, 12);
        // shuffle so that alignments vary
        for i in (1..vals.len()).rev() {
            vals.swap(i, rng.random_range(0..=i));
        }
        for le in [false, true] {
            tr.reset();
            let w = WRITER_WORDS[rng.random_range(0..WRITER_WORDS.len())];
            let mut tw = TW::new(tr, &wcfg(le, w, "vec"), 0);
            let mut starts: Vec<(u64, Option<u64>)> = vec![];
            let mut total = 0u64;
            for (i, &v) in vals.iter().enumerate() {
                let opts = write_opts(c);
                let opt = if i % 4 == 3 && c.f != Fam::MinBin { OPT_ENUM } else { opts[rng.random_range(0..opts.len())] };
                starts.push((total, Some(v)));
                if let Out::Ok(k) = tw.write_code(tr, c, opt, v) {
                    total += k as u64;
                }
                if i % 3 == 0 {
                    starts.push((total, None));
                    if let Out::Ok(k) = tw.write_bits(tr, (v ^ 0x1555) & 0x1FFF, 13) {
                        total += k as u64;
                    }
                }
            }
            // sentinel: a gamma code and a final one bit
            tw.write_code(tr, &CodeSpec::simple(Fam::Gamma), 0, 77);
            tw.write_bits(tr, 1, 1);
            tw.close(tr, "flush");
            let mut img = tw.w.image();
            while img.len() % 8 != 0 {
                img.push(0);
            }
            let cands: Vec<&RCfg> = rcfgs.iter().filter(|r| r.le == le).collect();
            // codes with decoding tables: whether a table may be used depends on the reader's look-ahead,
            // so one reader of every class (buffered over 8/16/32/64-bit words, unbuffered); others: random
            let tabled = matches!(c.f, Fam::Gamma | Fam::Delta) || (c.f == Fam::Zeta && c.k == 3);
            let mut chosen: Vec<&RCfg> = vec![];
            if tabled {
                for (kind, w) in [("buf", 8usize), ("buf", 16), ("buf", 32), ("buf", 64), ("unbuf", 64)] {
                    let cl: Vec<&&RCfg> = cands.iter().filter(|r| r.kind == kind && r.w == w).collect();
                    if !cl.is_empty() {
                        chosen.push(*cl[rng.random_range(0..cl.len())]);
                    }
                }
            }
            while chosen.len() < nreaders {
                chosen.push(cands[rng.random_range(0..cands.len())]);
            }
            for rcfg in chosen {
                tr.reset();
                let mut rd = TRd::new(tr, rcfg, &img);
                let cloneable = rd.r.try_clone().is_some();
                for (_, item) in &starts {
                    if rd.dead {
                        break;
                    }
                    match item {
                        Some(_) => {
                            let mut opts = read_opts(c, rcfg);
                            if c.f != Fam::MinBin {
                                opts.push(OPT_ENUM);
                            }
                            if cloneable {
                                for &o in &opts[1..] {
                                    let mut cl = rd.try_clone(tr).unwrap();
                                    cl.read_code(tr, c, o);
                                    cl.drop_obj(tr);
                                    st.tests += 1;
                                }
                                rd.read_code(tr, c, opts[0]);
                            } else {
                                let o = opts[rng.random_range(0..opts.len())];
                                rd.read_code(tr, c, o);
                            }
                            st.tests += 1;
                        }
                        None => {
                            rd.read_bits(tr, 13);
                        }
                    }
                }
                if !rd.dead {
                    rd.read_code(tr, &CodeSpec::simple(Fam::Gamma), 0);
                }
                rd.drop_obj(tr);
            }
        }
    }
}

/// (c) offset sweep: o junk bits, the codeword, a tail; read at every reader fill state o induces
pub fn offsets(tr: &mut Tr, rng: &mut SmallRng, codes: &[CodeSpec], per_code: usize, st: &mut Stats) {
    let rcfgs = all_rcfgs();
    for c in codes {
        let all = values_for(c, 4, 100, rng, 6);
        let mut vals: Vec<u64> = vec![];
        for _ in 0..per_code {
            vals.push(all[rng.random_range(0..all.len())]);
        }
        // and one value from the edges of the domain (codewords of 64+ bits at every alignment)
        let ev: Vec<u64> = edge_values(c).into_iter().filter(|x| unary_part(c, *x) <= 100).collect();
        if !ev.is_empty() {
            vals.push(ev[ev.len() - 1 - rng.random_range(0..ev.len().min(6))]);
        }
        for le in [false, true] {
            let cands: Vec<&RCfg> = rcfgs.iter().filter(|r| r.le == le).collect();
            let rcfg = cands[rng.random_range(0..cands.len())];
            let w = rcfg.w;
            for &v in &vals {
                tr.reset();
                let ww = WRITER_WORDS[rng.random_range(0..WRITER_WORDS.len())];
                // one stream holding, for each o, [o junk bits][code][tail], each group word aligned by a flush
                let mut tw = TW::new(tr, &wcfg(le, ww, "vec"), 0);
                let mut groups: Vec<(u64, usize)> = vec![];
                let mut total = 0u64;
                for o in 0..=(2 * w + 1) {
                    groups.push((total, o));
                    let mut left = o;
                    while left > 0 {
                        let k = left.min(61);
                        let junk = rng.random::<u64>() & ((1u64 << k) - 1);
                        if let Out::Ok(n) = tw.write_bits(tr, junk, k) {
                            total += n as u64;
                        }
                        left -= k;
                    }
                    let opts = write_opts(c);
                    if let Out::Ok(n) = tw.write_code(tr, c, opts[o % opts.len()], v) {
                        total += n as u64;
                    }
                    // tail: ones / zeros+one / random
                    let tail = match o % 3 {
                        0 => u64::MAX >> 1,
                        1 => 1,
                        _ => rng.random::<u64>() >> 1 | 1,
                    };
                    if let Out::Ok(n) = tw.write_bits(tr, tail, 63) {
                        total += n as u64;
                    }
                    if tw.flush(tr).is_ok() {
                        total = total.div_ceil(ww as u64) * ww as u64;
                    }
                    // readers need groups aligned to 64 bits to be independent of the writer word
                    while total % 64 != 0 {
                        if let Out::Ok(n) = tw.write_bits(tr, 0, 8) {
                            total += n as u64;
                        }
                        if tw.flush(tr).is_ok() {
                            total = total.div_ceil(ww as u64) * ww as u64;
                        }
                    }
                }
                tw.close(tr, "into_inner");
                let mut img = tw.w.image();
                while img.len() % 8 != 0 {
                    img.push(0);
                }
                let mut rd = TRd::new(tr, rcfg, &img);
                let opts = read_opts(c, rcfg);
                // groups are visited from the last to the first and then from the first to the last, so that
                // every seek (also the word-aligned ones, also the one followed at once by the code) happens
                // on a reader that still holds bits of the previous group
                let order: Vec<usize> = (0..groups.len()).rev().chain(0..groups.len()).collect();
                for (vi, gi) in order.into_iter().enumerate() {
                    let (start, o) = &groups[gi];
                    let gi = gi + vi;
                    if rd.dead {
                        break;
                    }
                    // reach the group: seek when possible, else skip
                    match rd.set_bit_pos(tr, *start) {
                        Some(Out::Ok(())) => {}
                        _ => break,
                    }
                    let mut left = *o;
                    while left > 0 && !rd.dead {
                        let k = left.min(61);
                        rd.read_bits(tr, k);
                        left -= k;
                    }
                    if rd.dead {
                        break;
                    }
                    rd.read_code(tr, c, opts[gi % opts.len()]);
                    if !rd.dead {
                        // only part of the tail: the reader keeps unread (mostly non-zero) bits when the next seek comes
                        rd.read_bits(tr, 23);
                    }
                    st.tests += 1;
                    st.distinct.insert((c.f, c.k, c.b, v));
                }
                rd.drop_obj(tr);
            }
        }
    }
}

fn edge_values(c: &CodeSpec) -> Vec<u64> {
    let mut v: Vec<u64> = vec![0, 1, 2, 3];
    for i in [7u32, 8, 15, 16, 31, 32, 33, 47, 48, 61, 62, 63] {
        let p = 1u64 << i;
        v.push(p - 1);
        v.push(p);
        v.push(p + 1);
    }
    for d in 0..4u64 {
        v.push(u64::MAX - d);
    }
    if c.f == Fam::MinBin || c.f == Fam::Golomb {
        v.push(c.b.wrapping_sub(1));
        v.push(c.b / 2);
    }
    v.sort();
    v.dedup();
    v.into_iter().filter(|x| in_domain(c, *x) && unary_part(c, *x) <= 300).collect()
}

/// every code x edge values: written alone (bytes, returned length), read back with every option, lengths
pub fn edges(tr: &mut Tr, rng: &mut SmallRng, codes: &[CodeSpec], st: &mut Stats) {
    let rcfgs = all_rcfgs();
    for c in codes {
        let vals = edge_values(c);
        for le in [false, true] {
            tr.reset();
            let w = WRITER_WORDS[rng.random_range(0..WRITER_WORDS.len())];
            let mut tw = TW::new(tr, &wcfg(le, w, "vec"), 0);
            let mut starts: Vec<u64> = vec![];
            let mut total = 0u64;
            for &v in &vals {
                for opt in write_opts(c) {
                    if tw.dead {
                        break;
                    }
                    starts.push(total);
                    if let Out::Ok(k) = tw.write_code(tr, c, opt, v) {
                        total += k as u64;
                    }
                    st.tests += 1;
                }
                st.distinct.insert((c.f, c.k, c.b, v));
            }
            if tw.dead {
                continue;
            }
            tw.write_bits(tr, 1, 1);
            tw.close(tr, "flush");
            let mut img = tw.w.image();
            while img.len() % 8 != 0 {
                img.push(0);
            }
            let cands: Vec<&RCfg> = rcfgs.iter().filter(|r| r.le == le).collect();
            let rcfg = cands[rng.random_range(0..cands.len())];
            let mut rd = TRd::new(tr, rcfg, &img);
            let ropts = read_opts(c, rcfg);
            for (i, _) in starts.iter().enumerate() {
                if rd.dead {
                    break;
                }
                rd.read_code(tr, c, ropts[i % ropts.len()]);
                st.tests += 1;
            }
            rd.drop_obj(tr);
        }
        for &v in &vals {
            emit_lens(tr, c, v);
        }
    }
}

/// gamma, delta, zeta3: every value up to past the table limits with every write option; lengths
pub fn enc_tables(tr: &mut Tr, rng: &mut SmallRng, shard: usize, nshards: usize, st: &mut Stats) {
    let codes = [CodeSpec::simple(Fam::Gamma), CodeSpec::simple(Fam::Delta), CodeSpec::k(Fam::Zeta, 3)];
    for (ci, c) in codes.iter().enumerate() {
        for (li, le) in [false, true].into_iter().enumerate() {
            if (2 * ci + li) % nshards != shard {
                continue;
            }
            tr.reset();
            let w = WRITER_WORDS[rng.random_range(0..WRITER_WORDS.len())];
            let mut tw = TW::new(tr, &wcfg(le, w, "vec"), 0);
            for v in 0..1100u64 {
                for opt in write_opts(c) {
                    if tw.dead {
                        break;
                    }
                    tw.write_code(tr, c, opt, v);
                    if !tw.dead {
                        tw.flush(tr);
                    }
                    st.tests += 1;
                }
                st.distinct.insert((c.f, c.k, c.b, v));
                if li == 0 {
                    emit_lens(tr, c, v);
                }
            }
            if !tw.dead {
                tw.close(tr, "drop");
            }
        }
    }
}

pub fn run(tr: &mut Tr, seed: u64, mode: &str, full: bool, shard: usize, nshards: usize) -> (u64, u64) {
    let mut rng = SmallRng::seed_from_u64(seed ^ 0x434f);
    let codes: Vec<CodeSpec> = all_codes(full).into_iter().enumerate().filter(|(i, _)| i % nshards == shard).map(|(_, c)| c).collect();
    let mut st = Stats { tests: 0, distinct: HashSet::new() };
    match mode {
        "alone" => {
            let words: Vec<usize> = if full { WRITER_WORDS.to_vec() } else { vec![WRITER_WORDS[(seed as usize) % 5]] };
            alone(tr, &mut rng, &codes, if full { 1 << 12 } else { 130 }, &words, &mut st);
        }
        "concat" => concat(tr, &mut rng, &codes, if full { 1024 } else { 100 }, if full { 6 } else { 2 }, &mut st),
        "offsets" => offsets(tr, &mut rng, &codes, if full { 4 } else { 1 }, &mut st),
        // every code at the edges of its domain (largest values, powers of two near 2^63 / 2^64)
        "edges" => edges(tr, &mut rng, &codes, &mut st),
        // every entry of the encoding / length tables (gamma, delta, zeta3), every option
        "enc_tables" => enc_tables(tr, &mut rng, shard, nshards, &mut st),
        m => panic!("unknown mode {}", m),
    }
    (st.tests, st.distinct.len() as u64)
}
