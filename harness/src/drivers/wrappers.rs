//! C14: counting / tracing wrappers.  Random histories through wrapped
//! writers and readers (count, dbg, count over dbg), including codes that are
//! implemented generically on top of the wrapper's own peek /
//! skip-after-peek (omega, table-parameterised gamma/delta/zeta), skips,
//! flushes and bulk copies in both directions.  The public counter is logged
//! after every call; TLC compares values, bytes, positions and counters with
//! the abstract machine.

use crate::drivers::hist::{apply_items, rand_items, read_back, Item};
use crate::dynio::*;
use crate::factory::*;
use crate::session::*;
use crate::trace::*;
use rand::rngs::SmallRng;
use rand::{Rng, SeedableRng};
use std::collections::HashSet;

pub fn run(tr: &mut Tr, seed: u64, histories: usize, len: usize) -> (u64, u64) {
    let mut rng = SmallRng::seed_from_u64(seed ^ 0x5752);
    let mut tests = 0u64;
    let mut distinct: HashSet<(bool, usize, &'static str, &'static str)> = HashSet::new();
    for h in 0..histories {
        let le = rng.random_bool(0.5);
        let items = rand_items(&mut rng, len, h % 2 == 0, false);
        let wwrap = ["count", "dbg", "countdbg", "count"][rng.random_range(0..4)];
        let ww = WRITER_WORDS[rng.random_range(0..WRITER_WORDS.len())];
        tr.reset();
        let mut tw = TW::new(tr, &WCfg { le, w: ww, backend: "vec", wrap: wwrap }, 0);
        let starts = apply_items(tr, &mut tw, &items);
        if tw.dead {
            continue;
        }
        tw.flush(tr);
        tw.flush(tr);
        tests += items.len() as u64;
        distinct.insert((le, ww, wwrap, "w"));
        // image through the (unwrapped) storage
        let mut img = tw.w.image();
        while img.len() % 8 != 0 {
            img.push(0);
        }
        // wrapped readers
        for _ in 0..2 {
            let (kind, w, rwrap): (&'static str, usize, &'static str) = if rng.random_range(0..5) == 0 {
                ("unbuf", 64, "count")
            } else {
                ("buf", READER_WORDS[rng.random_range(0..4)], ["count", "dbg", "countdbg"][rng.random_range(0..3)])
            };
            let rcfg = RCfg { le, w, kind, backend: "inf", wrap: rwrap };
            let mut rd = TRd::new(tr, &rcfg, &img);
            read_back(tr, &mut rng, &mut rd, &items, &starts, ww as u64);
            tests += items.len() as u64;
            distinct.insert((le, w, rwrap, kind));
            rd.drop_obj(tr);
        }
        // a counting wrapper put around a reader that is already at the start of item j, then seeks
        // through the wrapper: positions are the stream's, the counter is what was consumed through it
        for _ in 0..2 {
            let j = rng.random_range(0..items.len());
            let rcfg = RCfg { le, w: READER_WORDS[rng.random_range(0..4)], kind: "buf", backend: "inf", wrap: "count" };
            let mut rd = TRd::new_at(tr, &rcfg, &img, starts[j]);
            read_back(tr, &mut rng, &mut rd, &items[j..], &starts[j..], ww as u64);
            if !rd.dead {
                let k = rng.random_range(0..items.len());
                rd.set_bit_pos(tr, starts[k]);
                if !rd.dead {
                    read_back(tr, &mut rng, &mut rd, &items[k..], &starts[k..], ww as u64);
                }
            }
            tests += 2;
            rd.drop_obj(tr);
        }
        // copies between wrapped objects, both directions, then more writes
        let rcfg = RCfg { le, w: READER_WORDS[rng.random_range(0..4)], kind: "buf", backend: "inf", wrap: "count" };
        let mut rd = TRd::new(tr, &rcfg, &img);
        for _ in 0..6 {
            if rd.dead || tw.dead {
                break;
            }
            let n = rng.random_range(0..200);
            if rng.random_bool(0.5) {
                rd.copy_to(tr, &mut tw, n);
            } else {
                rd.copy_from(tr, &mut tw, n);
            }
            if !tw.dead {
                tw.write_code(tr, &CodeSpec::simple(Fam::Omega), 0, rng.random_range(0..5000));
            }
            if !rd.dead && rd.unary_safe() {
                rd.skip_bits(tr, rng.random_range(0..70));
            }
            tests += 1;
        }
        if !tw.dead {
            tw.close(tr, "flush");
        }
        // copies that fail half way (a strict source shorter than n): the counters still say what was moved
        for dir_to in [true, false] {
            tr.reset();
            let short: Vec<u8> = img.iter().cloned().chain(std::iter::repeat(0xA5)).take(8 * rng.random_range(1..=4usize)).collect();
            let rw = READER_WORDS[rng.random_range(0..4)];
            let rcfg = RCfg { le, w: rw, kind: "buf", backend: "strict", wrap: "none" };
            let mut rd = TRd::new(tr, &rcfg, &short);
            let mut tw2 = TW::new(tr, &WCfg { le, w: ww, backend: "vec", wrap: "count" }, 0);
            tw2.write_bits(tr, 5, rng.random_range(3..9));
            rd.read_bits(tr, rng.random_range(0..20));
            let n = 8 * short.len() as u64 + rng.random_range(1..100);
            if dir_to {
                rd.copy_to(tr, &mut tw2, n);
            } else {
                rd.copy_from(tr, &mut tw2, n);
            }
            tests += 1;
            rd.drop_obj(tr);
        }
        let _ = Item::Flush;
    }
    (tests, distinct.len() as u64)
}
