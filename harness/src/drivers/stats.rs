//! C15: code statistics.  Multisets of values (small, boundary, large with
//! totals kept below 2^64) observed one by one / with multiplicities, split
//! into parts and merged with add, +=, + and sum in different orders,
//! observed through the dispatch wrapper on writes and reads, and
//! accumulated by several threads through one shared wrapper.  Every
//! snapshot of the real fields and every best_code() answer is logged; TLC
//! recomputes the totals from the values with Codes!CLen.

use crate::dynio::{NullSink, Recording};
use crate::trace::*;
use dsi_bitstream::prelude::*;
use rand::rngs::SmallRng;
use rand::{Rng, SeedableRng};
use std::cell::RefCell;
use std::rc::Rc;
use std::sync::Arc;


fn b8(v: u64) -> String {
    let b = v.to_be_bytes();
    format!("[{},{},{},{},{},{},{},{}]", b[0], b[1], b[2], b[3], b[4], b[5], b[6], b[7])
}
fn arr(vs: &[u64]) -> String {
    let mut s = String::from("[");
    for (i, v) in vs.iter().enumerate() {
        if i > 0 {
            s.push(',');
        }
        s.push_str(&b8(*v));
    }
    s.push(']');
    s
}

fn snap<const Z: usize, const G: usize, const E: usize, const R: usize, const P: usize>(tr: &mut Tr, id: i64, s: &CodesStats<Z, G, E, R, P>) {
    tr.emit(
        Ev::new("st_snap")
            .i("o", id)
            .u64("total", s.total)
            .u64("unary", s.unary)
            .u64("gamma", s.gamma)
            .u64("delta", s.delta)
            .u64("omega", s.omega)
            .u64("vbyte", s.vbyte)
            .raw("zeta", &arr(&s.zeta))
            .raw("golomb", &arr(&s.golomb))
            .raw("exp_golomb", &arr(&s.exp_golomb))
            .raw("rice", &arr(&s.rice))
            .raw("pi", &arr(&s.pi)),
    );
}

fn code_fields(e: Ev, c: &Codes) -> Ev {
    let (f, k, b): (&str, usize, u64) = match c {
        Codes::Unary => ("unary", 0, 0),
        Codes::Gamma => ("gamma", 0, 0),
        Codes::Delta => ("delta", 0, 0),
        Codes::Omega => ("omega", 0, 0),
        Codes::VByteBe => ("vbyte_be", 0, 0),
        Codes::VByteLe => ("vbyte_le", 0, 0),
        Codes::Zeta { k } => ("zeta", *k, 0),
        Codes::Pi { k } => ("pi", *k, 0),
        Codes::Golomb { b } => ("golomb", 0, *b as u64),
        Codes::ExpGolomb { k } => ("exp_golomb", *k, 0),
        Codes::Rice { log2_b } => ("rice", *log2_b, 0),
        _ => ("?", 0, 0),
    };
    e.s("c", f).i("k", k as i64).u64("cb", b)
}

fn best<const Z: usize, const G: usize, const E: usize, const R: usize, const P: usize>(tr: &mut Tr, id: i64, s: &CodesStats<Z, G, E, R, P>, values: Option<&[(u64, u64)]>) {
    let (c, cost) = s.best_code();
    let mut e = code_fields(Ev::new("st_best").i("o", id), &c).u64("cost", cost);
    if let Some(vals) = values {
        // the actual size: write every value with the reported code and count the bits
        let total_bits: u64 = vals.iter().map(|(v, _)| *v).max().map(|_| 0).unwrap_or(0);
        let _ = total_bits;
        let log = Rc::new(RefCell::new(Vec::new()));
        let mut w: BufBitWriter<BE, Recording<NullSink<u64>>> = BufBitWriter::new(Recording { inner: NullSink::new(), log });
        let mut bits = 0u64;
        let mut ok = true;
        for (v, cnt) in vals {
            // only when the codewords are writable in practice
            let l = c.len(*v) as u64;
            if l > 100_000 {
                ok = false;
                break;
            }
            match c.write(&mut w, *v) {
                Ok(n) => bits += n as u64 * cnt,
                Err(_) => ok = false,
            }
        }
        if ok {
            e = e.u64("written", bits);
        }
    }
    tr.emit(e);
}

fn rand_val(rng: &mut SmallRng, big: bool) -> u64 {
    match rng.random_range(0..10) {
        0..=3 => rng.random_range(0..50),
        4..=5 => rng.random_range(0..5000),
        6 => {
            let i = rng.random_range(0..if big { 56 } else { 20 });
            let p = 1u64 << i;
            [p - 1, p, p + 1][rng.random_range(0..3)]
        }
        _ => {
            let bits = rng.random_range(1..=if big { 56 } else { 24 });
            rng.random::<u64>() >> (64 - bits)
        }
    }
}

fn new_ev<const Z: usize, const G: usize, const E: usize, const R: usize, const P: usize>(tr: &mut Tr, id: i64) {
    tr.emit(Ev::new("st_new").i("o", id).ints("sizes", &[Z as i64, G as i64, E as i64, R as i64, P as i64]));
}

fn rounds_for<const Z: usize, const G: usize, const E: usize, const R: usize, const P: usize>(tr: &mut Tr, rng: &mut SmallRng, rounds: usize) -> u64 {
    let mut tests = 0u64;
    for round in 0..rounds {
        tr.reset();
        let big = round % 3 == 2;
        let n = rng.random_range(1..if big { 12 } else { 40 });
        // multiset with multiplicities; large values only a few times so that totals stay below 2^64
        // one round in four: geometrically distributed values whose best Golomb modulus is about `bt'
        // (so that every tracked Golomb code, powers of two included, is the best one for some round)
        let geo = round % 4 == 1;
        let bt = rng.random_range(1..=G.max(1)) as f64;
        let q = 1.0 - (std::f64::consts::LN_2 / bt).min(0.9);
        let mut draw = |rng: &mut SmallRng| -> u64 {
            if geo {
                let u: f64 = rng.random_range(1e-9..1.0);
                (u.ln() / q.ln()).floor() as u64
            } else {
                rand_val(rng, big)
            }
        };
        let n = if geo { rng.random_range(20..60) } else { n };
        let mut vals: Vec<(u64, u64)> = (0..n).map(|_| (draw(rng), if rng.random_bool(0.3) { rng.random_range(1..if big { 4 } else { 1000 }) } else { 1 })).collect();
        // one round in eight: a single value just below 2^64 (every tracked code can still represent it and
        // the unary total n + 1 still fits), alone or with two small values
        if round % 8 == 5 {
            let r = rng.random_range(0..600u64);
            vals = vec![(u64::MAX - 1 - r, 1)];
            if r >= 30 {
                vals.push((3, 1));
                vals.push((1, 1));
            }
        }
        // (a) one by one / with multiplicities into one object
        let whole_id = tr.new_id();
        new_ev::<Z, G, E, R, P>(tr, whole_id);
        let mut whole = CodesStats::<Z, G, E, R, P>::default();
        for (v, c) in &vals {
            let ret = if *c == 1 { whole.update(*v) } else { whole.update_many(*v, *c) };
            tr.emit(Ev::new("st_update").i("o", whole_id).u64("v", *v).u64("count", *c).u64("ret", ret));
        }
        snap(tr, whole_id, &whole);
        best(tr, whole_id, &whole, Some(&vals));
        tests += 1;
        // (b) split into up to 3 parts, merge in different ways and orders
        let k = rng.random_range(1..=3usize);
        let mut parts: Vec<(i64, CodesStats<Z, G, E, R, P>)> = (0..k)
            .map(|_| {
                let id = tr.new_id();
                new_ev::<Z, G, E, R, P>(tr, id);
                (id, CodesStats::<Z, G, E, R, P>::default())
            })
            .collect();
        for (v, c) in &vals {
            let p = rng.random_range(0..k);
            let ret = parts[p].1.update_many(*v, *c);
            tr.emit(Ev::new("st_update").i("o", parts[p].0).u64("v", *v).u64("count", *c).u64("ret", ret));
        }
        for (id, s) in &parts {
            snap(tr, *id, s);
        }
        // order of merging
        let mut order: Vec<usize> = (0..k).collect();
        for i in (1..k).rev() {
            order.swap(i, rng.random_range(0..=i));
        }
        let how = rng.random_range(0..4);
        let merged_id = tr.new_id();
        new_ev::<Z, G, E, R, P>(tr, merged_id);
        let mut merged = CodesStats::<Z, G, E, R, P>::default();
        match how {
            0 => {
                for &i in &order {
                    merged.add(&parts[i].1);
                    tr.emit(Ev::new("st_add").i("o", merged_id).i("o2", parts[i].0).s("how", "add"));
                }
            }
            1 => {
                for &i in &order {
                    merged += parts[i].1;
                    tr.emit(Ev::new("st_add").i("o", merged_id).i("o2", parts[i].0).s("how", "add_assign"));
                }
            }
            2 => {
                for &i in &order {
                    merged = merged + parts[i].1;
                    tr.emit(Ev::new("st_add").i("o", merged_id).i("o2", parts[i].0).s("how", "plus"));
                }
            }
            _ => {
                merged = order.iter().map(|&i| parts[i].1).sum();
                for &i in &order {
                    tr.emit(Ev::new("st_add").i("o", merged_id).i("o2", parts[i].0).s("how", "sum"));
                }
            }
        }
        snap(tr, merged_id, &merged);
        best(tr, merged_id, &merged, None);
        tests += 1;
        // (c) through the dispatch wrapper on writes, then on reads
        let code = [Codes::Gamma, Codes::Delta, Codes::Zeta { k: 3 }, Codes::Omega, Codes::Pi { k: 2 }][rng.random_range(0..5)];
        let ww = CodesStatsWrapper::<Codes, Z, G, E, R, P>::new(code);
        let log = Rc::new(RefCell::new(Vec::new()));
        let mut w: BufBitWriter<LE, Recording<NullSink<u64>>> = BufBitWriter::new(Recording { inner: NullSink::new(), log: log.clone() });
        let wid = tr.new_id();
        new_ev::<Z, G, E, R, P>(tr, wid);
        for (v, _) in &vals {
            let _ = DynamicCodeWrite::write(&ww, &mut w, *v);
            tr.emit(Ev::new("st_update").i("o", wid).u64("v", *v).u64("count", 1).u64("ret", *v));
        }
        let _ = BitWrite::<LE>::flush(&mut w);
        let (_, wstats) = ww.into_inner();
        snap(tr, wid, &wstats);
        let bytes: Vec<u8> = log.borrow().clone();
        let words: Vec<u64> = crate::dynio::bytes_to_words(&bytes);
        let rw = CodesStatsWrapper::<Codes, Z, G, E, R, P>::new(code);
        let mut r: BufBitReader<LE, MemWordReader<u64, Vec<u64>>> = BufBitReader::new(MemWordReader::new(words));
        let rid = tr.new_id();
        new_ev::<Z, G, E, R, P>(tr, rid);
        for _ in &vals {
            if let Ok(v) = DynamicCodeRead::read(&rw, &mut r) {
                tr.emit(Ev::new("st_update").i("o", rid).u64("v", v).u64("count", 1).u64("ret", v));
            }
        }
        let (_, rstats) = rw.into_inner();
        snap(tr, rid, &rstats);
        tests += 2;
    }
    tests
}

pub fn run(tr: &mut Tr, seed: u64, rounds: usize, threads_rounds: usize) -> (u64, u64) {
    let mut rng = SmallRng::seed_from_u64(seed ^ 0x5354);
    let mut tests = 0u64;
    // the default sizes and two other instantiations of the const parameters
    tests += rounds_for::<10, 20, 10, 10, 10>(tr, &mut rng, rounds);
    tests += rounds_for::<3, 5, 4, 8, 2>(tr, &mut rng, rounds / 2 + 1);
    tests += rounds_for::<12, 1, 9, 2, 11>(tr, &mut rng, rounds / 2 + 1);
    // many Golomb codes, few of anything else: Golomb codes with no tracked twin win
    tests += rounds_for::<2, 20, 2, 2, 2>(tr, &mut rng, rounds / 2 + 1);
    tests += rounds_for::<1, 33, 1, 1, 1>(tr, &mut rng, rounds / 2 + 1);
    // (d) threads sharing one wrapper
    for round in 0..threads_rounds {
        tr.reset();
        let t = [2usize, 4, 8][round % 3];
        let per = rng.random_range(50..400);
        let shared = Arc::new(CodesStatsWrapper::<Codes>::new(Codes::Delta));
        let all: Vec<Vec<u64>> = (0..t).map(|_| (0..per).map(|_| rand_val(&mut rng, false)).collect()).collect();
        let mut hs = vec![];
        for tv in all.clone() {
            let sh = shared.clone();
            hs.push(std::thread::spawn(move || {
                let mut w: BufBitWriter<BE, NullSink<u64>> = BufBitWriter::new(NullSink::new());
                for v in tv {
                    let _ = DynamicCodeWrite::write(&*sh, &mut w, v);
                    if v % 7 == 0 {
                        std::thread::yield_now();
                    }
                }
                let _ = BitWrite::<BE>::flush(&mut w);
            }));
        }
        for h in hs {
            let _ = h.join();
        }
        let id = tr.new_id();
        tr.emit(Ev::new("st_new").i("o", id).i("threads", t as i64));
        for tv in &all {
            for v in tv {
                tr.emit(Ev::new("st_update").i("o", id).u64("v", *v).u64("count", 1).u64("ret", *v));
            }
        }
        let s = *shared.stats().lock().unwrap();
        snap(tr, id, &s);
        best(tr, id, &s, None);
        tests += 1;
    }
    (tests, tests)
}
