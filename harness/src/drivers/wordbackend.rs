//! C13: in-memory word streams.  (a) Every state of TLC's state graph over
//! small arrays (one generated history per state) x every call; (b) every
//! call sequence up to a bounded length over small arrays; (c) long random
//! sequences.  For word types u8..u128 and owned / borrowed storage.

use crate::trace::*;
use common_traits::*;
use dsi_bitstream::prelude::*;
use rand::rngs::SmallRng;
use rand::{Rng, SeedableRng};
use serde_json::Value;
use std::collections::HashSet;

#[derive(Clone, Copy, Debug, PartialEq)]
pub enum R<T> {
    Ok(T),
    Err,
    Panic,
}

fn g<T, E>(f: impl FnOnce() -> Result<T, E>) -> R<T> {
    match std::panic::catch_unwind(std::panic::AssertUnwindSafe(f)) {
        Ok(Ok(x)) => R::Ok(x),
        Ok(Err(_)) => R::Err,
        Err(_) => R::Panic,
    }
}

fn tag<T>(r: &R<T>) -> &'static str {
    match r {
        R::Ok(_) => "ok",
        R::Err => "err",
        R::Panic => "panic",
    }
}

pub trait DynB {
    fn read(&mut self) -> R<Vec<u8>>;
    fn write(&mut self, w: &[u8]) -> Option<R<()>>;
    fn pos(&mut self) -> R<u64>;
    fn set_pos(&mut self, p: u64) -> R<()>;
    fn len(&self) -> Option<usize>;
    fn data(&self) -> Vec<Vec<u8>>;
}

fn wb<W: Word>(w: W) -> Vec<u8> {
    w.to_ne_bytes().as_ref().to_vec()
}
fn bw<W: Word>(b: &[u8]) -> W {
    let mut x: W::Bytes = Default::default();
    x.as_mut().copy_from_slice(b);
    W::from_ne_bytes(x)
}

macro_rules! impl_reader {
    ($name:ident, $ty:ty, $store:ty) => {
        struct $name<W: Word + 'static>($ty, *const Vec<W>);
        impl<W: Word + 'static> DynB for $name<W> {
            fn read(&mut self) -> R<Vec<u8>> {
                let r = &mut self.0;
                g(|| r.read_word().map(wb))
            }
            fn write(&mut self, _w: &[u8]) -> Option<R<()>> {
                None
            }
            fn pos(&mut self) -> R<u64> {
                let r = &mut self.0;
                g(|| r.word_pos())
            }
            fn set_pos(&mut self, p: u64) -> R<()> {
                let r = &mut self.0;
                g(|| r.set_word_pos(p))
            }
            fn len(&self) -> Option<usize> {
                None
            }
            fn data(&self) -> Vec<Vec<u8>> {
                {
                let v: &Vec<W> = unsafe { &*self.1 };
                let mut out = Vec::new();
                for i in 0..v.len() {
                    out.push(wb(v[i]));
                }
                out
            }
            }
        }
    };
}

impl_reader!(InfOwned, MemWordReader<W, Vec<W>, true>, Vec<W>);
impl_reader!(InfBorrowed, MemWordReader<W, &'static [W], true>, Vec<W>);
impl_reader!(StrictOwned, MemWordReader<W, Vec<W>, false>, Vec<W>);
impl_reader!(StrictBorrowed, MemWordReader<W, &'static [W], false>, Vec<W>);

macro_rules! impl_writer {
    ($name:ident, $ty:ty) => {
        struct $name<W: Word + 'static>($ty, *mut Vec<W>);
        impl<W: Word + 'static> DynB for $name<W> {
            fn read(&mut self) -> R<Vec<u8>> {
                let r = &mut self.0;
                g(|| r.read_word().map(wb))
            }
            fn write(&mut self, w: &[u8]) -> Option<R<()>> {
                let r = &mut self.0;
                let v: W = bw(w);
                Some(g(|| r.write_word(v)))
            }
            fn pos(&mut self) -> R<u64> {
                let r = &mut self.0;
                g(|| r.word_pos())
            }
            fn set_pos(&mut self, p: u64) -> R<()> {
                let r = &mut self.0;
                g(|| r.set_word_pos(p))
            }
            fn len(&self) -> Option<usize> {
                Some(self.0.len())
            }
            fn data(&self) -> Vec<Vec<u8>> {
                {
                let v: &Vec<W> = unsafe { &*self.1 };
                let mut out = Vec::new();
                for i in 0..v.len() {
                    out.push(wb(v[i]));
                }
                out
            }
            }
        }
    };
}

impl_writer!(SliceBorrowed, MemWordWriterSlice<W, &'static mut [W]>);
impl_writer!(VecBorrowed, MemWordWriterVec<W, &'static mut Vec<W>>);
impl_writer!(SliceOwned, MemWordWriterSlice<W, crate::dynio::PtrSlice<W>>);
impl_writer!(VecOwned, MemWordWriterVec<W, crate::dynio::PtrVec<W>>);

fn make<W: Word + 'static>(kind: &str, owned: bool, data: Vec<W>) -> Box<dyn DynB> {
    // the storage is leaked: the harness looks at it through the raw pointer
    let store: *mut Vec<W> = Box::into_raw(Box::new(data));
    unsafe {
        match (kind, owned) {
            ("inf", true) => Box::new(InfOwned::<W>(MemWordReader::new((*store).clone()), Box::into_raw(Box::new((*store).clone())))),
            ("inf", false) => Box::new(InfBorrowed::<W>(MemWordReader::new((&*store).as_slice()), store)),
            ("strict", true) => Box::new(StrictOwned::<W>(MemWordReader::new_strict((*store).clone()), Box::into_raw(Box::new((*store).clone())))),
            ("strict", false) => Box::new(StrictBorrowed::<W>(MemWordReader::new_strict((&*store).as_slice()), store)),
            ("slice", true) => Box::new(SliceOwned::<W>(MemWordWriterSlice::new(crate::dynio::PtrSlice(store)), store)),
            ("slice", false) => Box::new(SliceBorrowed::<W>(MemWordWriterSlice::new((&mut *store).as_mut_slice()), store)),
            ("vec", true) => Box::new(VecOwned::<W>(MemWordWriterVec::new(crate::dynio::PtrVec(store)), store)),
            ("vec", false) => Box::new(VecBorrowed::<W>(MemWordWriterVec::new(&mut *store), store)),
            _ => panic!("kind"),
        }
    }
}

fn tok_bytes(t: &str, wbytes: usize) -> Vec<u8> {
    match t {
        "z" => vec![0; wbytes],
        "a" => vec![1; wbytes],
        _ => vec![0xFF; wbytes],
    }
}

fn make_b(kind: &str, owned: bool, wbits: usize, data: &[Vec<u8>]) -> Box<dyn DynB> {
    match wbits {
        8 => make::<u8>(kind, owned, data.iter().map(|b| bw(b)).collect()),
        16 => make::<u16>(kind, owned, data.iter().map(|b| bw(b)).collect()),
        32 => make::<u32>(kind, owned, data.iter().map(|b| bw(b)).collect()),
        64 => make::<u64>(kind, owned, data.iter().map(|b| bw(b)).collect()),
        128 => make::<u128>(kind, owned, data.iter().map(|b| bw(b)).collect()),
        _ => panic!("wbits"),
    }
}

fn words_json(ws: &[Vec<u8>]) -> String {
    let mut s = String::from("[");
    for (i, w) in ws.iter().enumerate() {
        if i > 0 {
            s.push(',');
        }
        s.push('[');
        for (j, b) in w.iter().enumerate() {
            if j > 0 {
                s.push(',');
            }
            s.push_str(&b.to_string());
        }
        s.push(']');
    }
    s.push(']');
    s
}

struct TB {
    id: i64,
    b: Box<dyn DynB>,
}

#[derive(Clone, Debug)]
enum Op {
    Read,
    Write(Vec<u8>),
    Pos,
    SetPos(u64),
    Len,
    Inner,
    /// positions that do not fit TLC's integers: logged as bytes
    SetPosBig(u64),
    PosBig,
    ReadBig,
}

impl TB {
    fn new(tr: &mut Tr, kind: &str, owned: bool, wbits: usize, data: &[Vec<u8>]) -> TB {
        let id = tr.new_id();
        let b = make_b(kind, owned, wbits, data);
        tr.emit(Ev::new("wb_new").i("o", id).s("kind", kind).b("owned", owned).i("w", wbits as i64).raw("data", &words_json(data)));
        TB { id, b }
    }
    fn apply(&mut self, tr: &mut Tr, op: &Op) {
        match op {
            Op::Read => {
                let r = self.b.read();
                let v = match &r {
                    R::Ok(v) => v.clone(),
                    _ => vec![],
                };
                tr.emit(Ev::new("wb_read").i("o", self.id).s("res", tag(&r)).bytes("v", &v));
            }
            Op::Write(w) => {
                if let Some(r) = self.b.write(w) {
                    tr.emit(Ev::new("wb_write").i("o", self.id).bytes("v", w).s("res", tag(&r)));
                }
            }
            Op::Pos => {
                if let R::Ok(p) = self.b.pos() {
                    tr.emit(Ev::new("wb_pos").i("o", self.id).i("ret", p as i64));
                }
            }
            Op::SetPos(p) => {
                let r = self.b.set_pos(*p);
                tr.emit(Ev::new("wb_setpos").i("o", self.id).i("p", *p as i64).s("res", tag(&r)));
            }
            Op::Len => {
                if let Some(l) = self.b.len() {
                    tr.emit(Ev::new("wb_len").i("o", self.id).i("ret", l as i64));
                }
            }
            Op::SetPosBig(p) => {
                let r = self.b.set_pos(*p);
                tr.emit(Ev::new("wb_setpos_big").i("o", self.id).bytes("pb", &p.to_be_bytes()).s("res", tag(&r)));
            }
            Op::PosBig => {
                if let R::Ok(p) = self.b.pos() {
                    tr.emit(Ev::new("wb_pos_big").i("o", self.id).bytes("ret", &p.to_be_bytes()));
                }
            }
            Op::ReadBig => {
                let r = self.b.read();
                let v = match &r {
                    R::Ok(v) => v.clone(),
                    _ => vec![],
                };
                tr.emit(Ev::new("wb_read_big").i("o", self.id).s("res", tag(&r)).bytes("v", &v));
            }
            Op::Inner => {
                let d = self.b.data();
                tr.emit(Ev::new("wb_inner").i("o", self.id).raw("data", &words_json(&d)));
            }
        }
    }
}

fn all_ops(wbytes: usize, maxp: u64) -> Vec<Op> {
    let mut v = vec![Op::Read, Op::Pos, Op::Len, Op::Inner];
    for t in ["z", "a", "b"] {
        v.push(Op::Write(tok_bytes(t, wbytes)));
    }
    for p in 0..=maxp {
        v.push(Op::SetPos(p));
    }
    v.push(Op::SetPos(1 << 30));
    v
}

pub fn run(tr: &mut Tr, seed: u64, paths_file: &str, seqlen: usize, randlen: usize) -> (u64, u64) {
    let mut rng = SmallRng::seed_from_u64(seed ^ 0x5742);
    let mut tests = 0u64;
    let mut distinct: HashSet<String> = HashSet::new();
    let kinds = ["inf", "strict", "slice", "vec"];
    let words = [8usize, 16, 32, 64, 128];
    // (a) TLC state graph: path to every state, then every call
    let paths: Vec<Value> = std::fs::read_to_string(paths_file).expect("paths").lines().filter(|l| !l.trim().is_empty()).map(|l| serde_json::from_str(l).unwrap()).collect();
    for wbits in words {
        let wbytes = wbits / 8;
        for owned in [true, false] {
            for p in &paths {
                let kind = p["kind"].as_str().unwrap();
                let path = p["path"].as_array().unwrap();
                let data: Vec<Vec<u8>> = path[0]["data"].as_array().unwrap().iter().map(|t| tok_bytes(t.as_str().unwrap(), wbytes)).collect();
                for op in all_ops(wbytes, data.len() as u64 + 2) {
                    tr.reset();
                    let mut b = TB::new(tr, kind, owned, wbits, &data);
                    for st in &path[1..] {
                        let o = match st["op"].as_str().unwrap() {
                            "read" => Op::Read,
                            "write" => Op::Write(tok_bytes(st["v"].as_str().unwrap(), wbytes)),
                            "setpos" => Op::SetPos(st["p"].as_u64().unwrap()),
                            x => panic!("path op {}", x),
                        };
                        b.apply(tr, &o);
                    }
                    b.apply(tr, &op);
                    b.apply(tr, &Op::Pos);
                    b.apply(tr, &Op::Inner);
                    tests += 1;
                    distinct.insert(format!("{}{}{}{:?}", kind, owned, p["path"].to_string(), std::mem::discriminant(&op)));
                }
            }
        }
    }
    // (a') positions near and beyond 2^31 .. 2^64 - 1 (a position is a u64): exact on the zero-extended
    // reader, rejected without moving by the others; then back to an ordinary position
    let bigs: Vec<u64> = vec![1 << 31, (1 << 32) + 7, (1 << 60) - 1, 1 << 60, (1 << 61) + 5, 1 << 62, (1 << 63) - 1, 1 << 63, u64::MAX - 1, u64::MAX];
    for wbits in words {
        let wbytes = wbits / 8;
        for p in &paths {
            let kind = p["kind"].as_str().unwrap();
            let path = p["path"].as_array().unwrap();
            let data: Vec<Vec<u8>> = path[0]["data"].as_array().unwrap().iter().map(|t| tok_bytes(t.as_str().unwrap(), wbytes)).collect();
            tr.reset();
            let mut b = TB::new(tr, kind, true, wbits, &data);
            for st in &path[1..] {
                let o = match st["op"].as_str().unwrap() {
                    "read" => Op::Read,
                    "write" => Op::Write(tok_bytes(st["v"].as_str().unwrap(), wbytes)),
                    "setpos" => Op::SetPos(st["p"].as_u64().unwrap()),
                    x => panic!("path op {}", x),
                };
                b.apply(tr, &o);
            }
            for &big in &bigs {
                b.apply(tr, &Op::SetPosBig(big));
                b.apply(tr, &Op::PosBig);
                if kind == "inf" && big < u64::MAX - 1 {
                    b.apply(tr, &Op::ReadBig);
                    b.apply(tr, &Op::PosBig);
                }
                tests += 1;
            }
            if kind == "inf" {
                b.apply(tr, &Op::SetPos(1));
            }
            b.apply(tr, &Op::Pos);
            b.apply(tr, &Op::Read);
            b.apply(tr, &Op::Inner);
        }
    }
    // (b) every call sequence up to seqlen over arrays of length <= 2
    let toks = ["z", "a", "b"];
    let mut arrays: Vec<Vec<&str>> = vec![vec![]];
    for a in toks {
        arrays.push(vec![a]);
        for b in toks {
            arrays.push(vec![a, b]);
        }
    }
    let wbits = words[(seed as usize) % 5];
    let wbytes = wbits / 8;
    let alpha: Vec<Op> = vec![Op::Read, Op::Write(tok_bytes("a", wbytes)), Op::Write(tok_bytes("z", wbytes)), Op::SetPos(0), Op::SetPos(1), Op::SetPos(2), Op::SetPos(3)];
    for kind in kinds {
        for arr in &arrays {
            let data: Vec<Vec<u8>> = arr.iter().map(|t| tok_bytes(t, wbytes)).collect();
            let n = alpha.len();
            let total = n.pow(seqlen as u32);
            for code in 0..total {
                tr.reset();
                let mut b = TB::new(tr, kind, code % 2 == 0, wbits, &data);
                let mut c = code;
                for _ in 0..seqlen {
                    b.apply(tr, &alpha[c % n]);
                    c /= n;
                }
                b.apply(tr, &Op::Pos);
                b.apply(tr, &Op::Len);
                b.apply(tr, &Op::Inner);
                tests += 1;
            }
        }
    }
    // (c) long random sequences
    for kind in kinds {
        for wbits in words {
            let wbytes = wbits / 8;
            tr.reset();
            let n0 = rng.random_range(0..6);
            let data: Vec<Vec<u8>> = (0..n0).map(|_| (0..wbytes).map(|_| rng.random()).collect()).collect();
            let mut b = TB::new(tr, kind, rng.random_bool(0.5), wbits, &data);
            for i in 0..randlen {
                let op = match rng.random_range(0..10) {
                    0..=2 => Op::Read,
                    3..=5 => Op::Write(if rng.random_range(0..4) == 0 { vec![0; wbytes] } else { (0..wbytes).map(|_| rng.random()).collect() }),
                    6 => Op::Pos,
                    7 => Op::Len,
                    8 => Op::SetPos(rng.random_range(0..40)),
                    _ => Op::SetPos(rng.random_range(0..8)),
                };
                b.apply(tr, &op);
                if i % 50 == 0 {
                    b.apply(tr, &Op::Inner);
                }
                tests += 1;
            }
            b.apply(tr, &Op::Inner);
        }
    }
    (tests, distinct.len() as u64)
}
