//! Spec -> implementation for writers: for every space_left state of the
//! implementation-shaped writer model (TLC-generated shortest history), on
//! every writer configuration, every operation of the alphabet followed by a
//! continuation write and a flush (which returns the writer to the empty
//! state).  Every call is logged with the bytes the backend received.

use crate::drivers::rstates::{load_paths, POp};
use crate::factory::*;
use crate::session::*;
use crate::trace::*;
use rand::rngs::SmallRng;
use rand::{Rng, SeedableRng};
use std::collections::HashSet;

#[derive(Clone, Debug)]
pub enum WOp {
    Bits(u64, usize),
    Unary(u64),
    Flush,
    Flush2,
    Bytes(usize),
}

fn clean(v: u64, n: usize) -> u64 {
    if cfg!(feature = "checks") && n < 64 {
        v & ((1u64 << n) - 1)
    } else {
        v
    }
}

pub fn alphabet(w: usize, ops: &str, full: bool, rng: &mut SmallRng) -> Vec<WOp> {
    let mut a = vec![];
    let bset = |max: usize| -> Vec<usize> {
        let mut v: HashSet<usize> = [0, 1, 2, 7, 8, 9, 15, 16, 17, 31, 32, 33, 62, 63, 64].into_iter().collect();
        for k in [w - 1, w, w + 1, 2 * w - 1, 2 * w, 2 * w + 1, 3 * w - 1, 3 * w, 3 * w + 1] {
            v.insert(k);
        }
        let mut v: Vec<usize> = v.into_iter().filter(|x| *x <= max).collect();
        v.sort();
        v
    };
    match ops {
        "c01" => {
            let ns: Vec<usize> = if full { (0..=64).collect() } else { bset(64) };
            for n in ns {
                for v in [0u64, u64::MAX, 0xA5A5_A5A5_A5A5_A5A5, rng.random::<u64>()] {
                    a.push(WOp::Bits(v, n));
                }
            }
            let xs: Vec<usize> = if full { (0..=3 * w + 1).collect() } else { bset(3 * w + 1) };
            for x in xs {
                a.push(WOp::Unary(x as u64));
            }
            a.push(WOp::Flush);
            a.push(WOp::Flush2);
        }
        "c12" => {
            let ks: Vec<usize> = if full { (0..=40).collect() } else { vec![0, 1, 2, 3, 4, 7, 8, 9, 15, 16, 17, 23, 24, 25, 31, 32, 33, 40] };
            for k in ks {
                a.push(WOp::Bytes(k));
            }
        }
        o => panic!("unknown op set {}", o),
    }
    a
}

pub fn run(tr: &mut Tr, seed: u64, paths_file: &str, ops: &str, full: bool, shard: usize, nshards: usize) -> (u64, u64) {
    let mut rng = SmallRng::seed_from_u64(seed ^ 0x5753);
    let paths = load_paths(paths_file);
    let mut tests = 0u64;
    let mut distinct: HashSet<(usize, usize, String)> = HashSet::new();
    for (ci, cfg) in all_wcfgs().iter().enumerate() {
        if ci % nshards != shard {
            continue;
        }
        let alpha = alphabet(cfg.w, ops, full, &mut rng);
        tr.reset();
        let cap = 4100 * 8;
        // short sessions first: the storage of a memory backend holds more than what is delivered
        // (a vector that already had a few words, a slice), and closing must leave the rest alone
        for how in ["flush", "drop", "into_inner"] {
            // ... and every way of closing pads what is pending: 1, 7, 63, 64, 65, W - 1 bits after one delivered word
            for pend in [0usize, 1, 7, 63, 64, 65, cfg.w - 1] {
                if pend >= cfg.w {
                    continue;
                }
                tr.reset();
                let mut sw = TW::new(tr, cfg, cap);
                let mut left = cfg.w + pend;
                while left > 0 && !sw.dead {
                    let k = left.min(61);
                    sw.write_bits(tr, clean(0x5A5A_5A5A_5A5A_5A5A, k), k);
                    left -= k;
                }
                if !sw.dead {
                    sw.close(tr, how);
                }
                tests += 1;
            }
        }
        tr.reset();
        let mut w = TW::new(tr, cfg, cap);
        let mut since_new = 0usize;
        for sp in paths.iter().filter(|p| p.w == cfg.w) {
            for op in &alpha {
                if w.dead || since_new > 4000 {
                    if !w.dead {
                        let how = ["flush", "drop", "into_inner"][rng.random_range(0..3)];
                        w.close(tr, how);
                    }
                    tr.reset();
                    w = TW::new(tr, cfg, cap);
                    since_new = 0;
                }
                since_new += 1;
                tests += 1;
                distinct.insert((ci, sp.key, format!("{:?}", std::mem::discriminant(op))));
                // reach the state
                for p in &sp.path {
                    match p {
                        POp::Read(n) => {
                            w.write_bits(tr, clean(u64::MAX, *n), *n);
                        }
                        POp::Skip(x) => {
                            w.write_unary(tr, *x as u64);
                        }
                        POp::Peek(_) => {}
                    }
                }
                if w.dead {
                    continue;
                }
                match op {
                    WOp::Bits(v, n) => {
                        w.write_bits(tr, clean(*v, *n), *n);
                    }
                    WOp::Unary(x) => {
                        w.write_unary(tr, *x);
                    }
                    WOp::Flush => {
                        w.flush(tr);
                    }
                    WOp::Flush2 => {
                        w.flush(tr);
                        if !w.dead {
                            w.flush(tr);
                        }
                    }
                    WOp::Bytes(k) => {
                        let bs: Vec<u8> = (0..*k).map(|_| rng.random()).collect();
                        w.write_bytes(tr, &bs);
                    }
                }
                if w.dead {
                    continue;
                }
                // continuation, then back to the empty state
                w.write_bits(tr, 0x2AB, 11);
                if !w.dead {
                    w.flush(tr);
                }
            }
        }
        if !w.dead {
            w.close(tr, "into_inner");
        }
    }
    (tests, distinct.len() as u64)
}


/// Write-side faults: fixed-slice backends of 0..=3 words receive random histories until the
/// backend is full.  The call that does not fit must fail, the words that fit must have been
/// delivered unaltered, and nothing else.
pub fn wfull(tr: &mut Tr, seed: u64, rounds: usize) -> (u64, u64) {
    use crate::drivers::hist::{rand_items, Item};
    use crate::dynio::Out;
    let mut rng = SmallRng::seed_from_u64(seed ^ 0x5746);
    let mut tests = 0u64;
    let mut distinct: HashSet<(usize, usize, String)> = HashSet::new();
    for r in 0..rounds {
        for le in [false, true] {
            for w in WRITER_WORDS {
                let cap = rng.random_range(0..=3usize) + if r % 4 == 0 { 4 } else { 0 };
                let cfg = WCfg { le, w, backend: "slice", wrap: "none" };
                tr.reset();
                let mut tw = TW::new(tr, &cfg, cap);
                let items = rand_items(&mut rng, 40, true, true);
                for it in &items {
                    if tw.dead {
                        break;
                    }
                    tests += 1;
                    let res = match it {
                        Item::Bits { v, n } => tw.write_bits(tr, clean(*v, *n), *n).is_ok(),
                        Item::Unary(x) => tw.write_unary(tr, *x % (3 * w as u64 + 2)).is_ok(),
                        Item::Code { c, opt, v } => tw.write_code(tr, c, *opt, *v).is_ok(),
                        Item::Bytes(bs) => matches!(tw.write_bytes(tr, bs), Some(Out::Ok(_))),
                        Item::Flush => tw.flush(tr).is_ok(),
                    };
                    distinct.insert((w, cap, format!("{:?}{}", std::mem::discriminant(it), res)));
                }
                // a writer that survived is closed by a flush (never dropped: drop unwraps the flush result)
                if !tw.dead {
                    tw.flush(tr);
                }
                // bulk copies into a bounded destination from a bounded source: the error must blame
                // the side that actually ran out
                let mut tw = TW::new(tr, &cfg, rng.random_range(0..=2usize));
                let nsrc = 8 * rng.random_range(1..=3usize);
                let src_bytes = crate::gen::rand_image(&mut rng, nsrc);
                let rk = [("buf", "strict"), ("buf", "inf"), ("unbuf", "strict")][rng.random_range(0..3)];
                let rw = if rk.0 == "unbuf" { 64 } else { crate::factory::READER_WORDS[rng.random_range(0..4)] };
                let rcfg = RCfg { le, w: rw, kind: rk.0, backend: rk.1, wrap: "none" };
                let mut rd = TRd::new(tr, &rcfg, &src_bytes);
                for _ in 0..4 {
                    if rd.dead || tw.dead {
                        break;
                    }
                    let n = rng.random_range(0..300u64);
                    if rng.random_bool(0.5) {
                        rd.copy_to(tr, &mut tw, n);
                    } else {
                        rd.copy_from(tr, &mut tw, n);
                    }
                    tests += 1;
                }
                rd.drop_obj(tr);
            }
        }
    }
    (tests, distinct.len() as u64)
}
