//! C05: decoding tables.  For gamma, delta, zeta_3 and both endiannesses,
//! every look-ahead pattern of the table's index width is placed in a stream
//! at chosen alignments, followed by a ones tail (so that every pattern
//! decodes to something finite and in-domain), and decoded with the table
//! on and off on clones of a reader brought to that position, with and
//! without an extra look-ahead refill before.  TLC validates every read
//! against Codes!Dec on the recorded image, so table-on and table-off are
//! each compared with the definition (and hence with each other).

use crate::drivers::codes::read_opts;
use crate::dynio::*;
use crate::factory::*;
use crate::session::*;
use crate::trace::*;
use rand::rngs::SmallRng;
use rand::{Rng, SeedableRng};
use std::collections::HashSet;

const GROUP: usize = 320; // bits per group, a multiple of 64

fn put_bit(img: &mut [u8], le: bool, i: usize, b: bool) {
    let byte = i / 8;
    let k = i % 8;
    let mask = if le { 1u8 << k } else { 1u8 << (7 - k) };
    if b {
        img[byte] |= mask;
    } else {
        img[byte] &= !mask;
    }
}

fn in_domain(f: Fam, pat: u32, rb: usize) -> bool {
    // stream-order pattern, first bit = most significant of `pat`
    let lead = (pat << (32 - rb)).leading_zeros() as usize;
    match f {
        // delta: gamma part gives the length L of the rest; L <= 62 is surely in domain
        Fam::Delta => lead <= 4,
        _ => lead.min(rb) <= 20,
    }
}

pub fn run(tr: &mut Tr, seed: u64, full: bool, shard: usize, nshards: usize, frac: usize) -> (u64, u64) {
    let mut rng = SmallRng::seed_from_u64(seed ^ 0x5442);
    let mut tests = 0u64;
    let mut distinct: HashSet<(u8, bool, u32, usize)> = HashSet::new();
    let fams = [(Fam::Gamma, 0usize, 9usize), (Fam::Delta, 0, 11), (Fam::Zeta, 3, 12)];
    for (ci, cfg) in all_rcfgs().iter().enumerate() {
        if ci % nshards != shard {
            continue;
        }
        if cfg.backend != "inf" && cfg.backend != "strict" && cfg.backend != "cursor" {
            continue;
        }
        let w = cfg.w;
        for (fi, (f, k, rb)) in fams.iter().enumerate() {
            let c = CodeSpec::k(*f, *k);
            let opts = read_opts(&c, cfg);
            // alignments: all for small words (or full), boundary set otherwise
            let aligns: Vec<usize> = if w <= 16 {
                (0..w).collect()
            } else {
                let mut a: Vec<usize> = vec![0, 1, 2, w - rb - 1, w - rb, w - rb + 1, w - 2, w - 1, w / 2];
                for _ in 0..(if full { 7 } else { 1 }) {
                    a.push(rng.random_range(0..w));
                }
                a.sort();
                a.dedup();
                a.into_iter().filter(|x| *x < w).collect()
            };
            // every pattern at one random alignment; the pattern subset selected by `frac'
            // (all of them when frac = 1) at every alignment of the list
            let mut work: Vec<(u32, usize)> = vec![];
            for pat in 0..(1u32 << rb) {
                if !in_domain(*f, pat, *rb) {
                    continue;
                }
                if frac > 1 && (pat as usize + seed as usize + fi) % frac != 0 {
                    work.push((pat, rng.random_range(0..w)));
                    continue;
                }
                for &o in &aligns {
                    work.push((pat, o));
                }
            }
            for chunk in work.chunks(256) {
                let nbytes = chunk.len() * GROUP / 8 + 64;
                let mut img = vec![0xFFu8; nbytes];
                for (gi, (pat, o)) in chunk.iter().enumerate() {
                    let base = gi * GROUP;
                    // junk before the pattern
                    for i in 0..*o {
                        put_bit(&mut img, cfg.le, base + i, rng.random());
                    }
                    for i in 0..*rb {
                        put_bit(&mut img, cfg.le, base + o + i, (pat >> (rb - 1 - i)) & 1 == 1);
                    }
                }
                tr.reset();
                let mut rd = TRd::new(tr, cfg, &img);
                let cloneable = rd.r.try_clone().is_some();
                for (gi, (pat, o)) in chunk.iter().enumerate() {
                    if rd.dead {
                        break;
                    }
                    let base = (gi * GROUP) as u64;
                    for variant in 0..2 {
                        match rd.set_bit_pos(tr, base) {
                            Some(Out::Ok(())) => {}
                            _ => break,
                        }
                        let mut left = *o;
                        while left > 0 && !rd.dead {
                            let n = left.min(64);
                            rd.read_bits(tr, n);
                            left -= n;
                        }
                        if rd.dead {
                            break;
                        }
                        if variant == 1 {
                            // an extra look-ahead first: the buffer may then hold more than a word
                            rd.peek_bits(tr, cfg.peek_max());
                            if rd.dead {
                                break;
                            }
                        }
                        for &opt in &opts {
                            tests += 1;
                            if cloneable {
                                let mut cl = rd.try_clone(tr).unwrap();
                                cl.read_code(tr, &c, opt);
                                if !cl.dead {
                                    cl.read_bits(tr, 17);
                                }
                                cl.drop_obj(tr);
                            } else {
                                rd.read_code(tr, &c, opt);
                                break;
                            }
                        }
                        distinct.insert((fi as u8, cfg.le, *pat, (w * 2 + variant) * 1000 + *o));
                    }
                }
                rd.drop_obj(tr);
            }
        }
    }
    (tests, distinct.len() as u64)
}
