//! C19: write_bits(v, n) for every n and v with each single bit at or above n
//! set (and a clean v): a build with argument checks must panic exactly on
//! the dirty ones, a build without must ignore the dirty bits.

use crate::dynio::*;
use crate::factory::*;
use crate::session::*;
use crate::trace::*;
use rand::rngs::SmallRng;
use rand::{Rng, SeedableRng};

pub fn run(tr: &mut Tr, seed: u64) -> (u64, u64) {
    let mut rng = SmallRng::seed_from_u64(seed ^ 0x4449);
    let mut tests = 0u64;
    for le in [false, true] {
        for w in WRITER_WORDS {
            let cfg = WCfg { le, w, backend: "vec", wrap: "none" };
            tr.reset();
            let mut tw = TW::new(tr, &cfg, 0);
            for n in 0..=64usize {
                let low = if n == 0 { 0 } else { rng.random::<u64>() >> (64 - n) };
                let mut vs = vec![low];
                for b in n..64 {
                    vs.push(low | (1u64 << b));
                }
                for v in vs {
                    if tw.dead {
                        tr.reset();
                        tw = TW::new(tr, &cfg, 0);
                        // vary the fill level at which the next write happens
                        let k = rng.random_range(0..w.min(64));
                        tw.write_bits(tr, 0, k);
                    }
                    tw.write_bits(tr, v, n);
                    tests += 1;
                }
            }
            if !tw.dead {
                tw.close(tr, "flush");
            }
        }
    }
    (tests, 2 * 5 * 65)
}
