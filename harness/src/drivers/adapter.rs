//! C11: WordAdapter over byte streams that behave in every way std::io
//! allows.  A schedule fixes the outcome of each call into the byte stream
//! (k bytes accepted / returned for every k, Interrupted, error); schedules
//! are enumerated exhaustively up to a depth (all of them for 1-, 2- and
//! 4-byte words), as single faults at every call index for wider words, and
//! at random.  Every call the adapter makes into the stream and every call /
//! return of the adapter is logged; TLC validates the trace against
//! WordAdapterIO and evaluates LossFree / ReadExact after every step.

use crate::trace::*;
use common_traits::{AsBytes, FromBytes, ToBytes};
use dsi_bitstream::prelude::*;
use rand::rngs::SmallRng;
use rand::{Rng, SeedableRng};
use std::cell::RefCell;
use std::collections::HashSet;
use std::io::{Read, Seek, SeekFrom, Write};
use std::rc::Rc;

#[derive(Clone, Copy, Debug, PartialEq)]
pub enum Outc {
    Bytes(usize),
    Int,
    Fail,
}

#[derive(Clone, Debug)]
pub struct EnvEv {
    write: bool,
    buf: Vec<u8>,
    req: usize,
    out: Outc,
    data: Vec<u8>,
}

pub struct Shared {
    pub bytes: Vec<u8>,
    pub pos: usize,
    /// choice index per call; beyond its end: transfer everything
    pub sched: Vec<usize>,
    /// number of choices that were available at each call
    pub radix: Vec<usize>,
    pub calls: usize,
    pub log: Vec<EnvEv>,
}

#[derive(Clone)]
pub struct Faulty(pub Rc<RefCell<Shared>>);

fn decode(choice: usize, n: usize) -> Outc {
    // choices: 0 => all n bytes, 1..=n => n-1 .. 0 bytes, n+1 => Interrupted, n+2 => Fail
    if choice <= n {
        Outc::Bytes(n - choice)
    } else if choice == n + 1 {
        Outc::Int
    } else {
        Outc::Fail
    }
}

impl Write for Faulty {
    fn write(&mut self, buf: &[u8]) -> std::io::Result<usize> {
        let mut s = self.0.borrow_mut();
        let i = s.calls;
        s.calls += 1;
        let choice = s.sched.get(i).copied().unwrap_or(0);
        s.radix.push(buf.len() + 3);
        let out = decode(choice, buf.len());
        s.log.push(EnvEv { write: true, buf: buf.to_vec(), req: buf.len(), out, data: vec![] });
        match out {
            Outc::Bytes(k) => {
                s.bytes.extend_from_slice(&buf[..k]);
                Ok(k)
            }
            Outc::Int => Err(std::io::Error::new(std::io::ErrorKind::Interrupted, "interrupted")),
            Outc::Fail => Err(std::io::Error::new(std::io::ErrorKind::Other, "injected")),
        }
    }
    fn flush(&mut self) -> std::io::Result<()> {
        Ok(())
    }
}

impl Read for Faulty {
    fn read(&mut self, buf: &mut [u8]) -> std::io::Result<usize> {
        let mut s = self.0.borrow_mut();
        let i = s.calls;
        s.calls += 1;
        let choice = s.sched.get(i).copied().unwrap_or(0);
        s.radix.push(buf.len() + 3);
        let avail = s.bytes.len() - s.pos;
        let out = match decode(choice, buf.len()) {
            Outc::Bytes(k) => Outc::Bytes(k.min(avail)),
            o => o,
        };
        let mut data = vec![];
        let r = match out {
            Outc::Bytes(k) => {
                let p = s.pos;
                buf[..k].copy_from_slice(&s.bytes[p..p + k]);
                data = buf[..k].to_vec();
                s.pos += k;
                Ok(k)
            }
            Outc::Int => Err(std::io::Error::new(std::io::ErrorKind::Interrupted, "interrupted")),
            Outc::Fail => Err(std::io::Error::new(std::io::ErrorKind::Other, "injected")),
        };
        s.log.push(EnvEv { write: false, buf: vec![], req: buf.len(), out, data });
        r
    }
}

impl Seek for Faulty {
    fn seek(&mut self, p: SeekFrom) -> std::io::Result<u64> {
        let mut s = self.0.borrow_mut();
        let np = match p {
            SeekFrom::Start(x) => x as i64,
            SeekFrom::Current(d) => s.pos as i64 + d,
            SeekFrom::End(d) => s.bytes.len() as i64 + d,
        };
        s.pos = np.max(0) as usize;
        Ok(s.pos as u64)
    }
}

fn flush_env(tr: &mut Tr, id: i64, sh: &Rc<RefCell<Shared>>) {
    let evs: Vec<EnvEv> = std::mem::take(&mut sh.borrow_mut().log);
    for e in evs {
        let (out, k) = match e.out {
            Outc::Bytes(k) => ("bytes", k as i64),
            Outc::Int => ("int", 0),
            Outc::Fail => ("fail", 0),
        };
        if e.write {
            tr.emit(Ev::new("io_write").i("o", id).bytes("buf", &e.buf).s("out", out).i("k", k));
        } else {
            tr.emit(Ev::new("io_read").i("o", id).i("req", e.req as i64).s("out", out).bytes("data", &e.data));
        }
    }
}

fn word_bytes<W: Word>(i: usize) -> Vec<u8> {
    (0..W::BYTES).map(|j| (16 * (i + 1) + j + 1) as u8).collect()
}

fn from_bytes<W: Word>(b: &[u8]) -> W {
    let mut x: W::Bytes = Default::default();
    x.as_mut().copy_from_slice(b);
    W::from_ne_bytes(x)
}

/// one run of the writer side; returns the radices observed
fn run_write<W: Word>(tr: &mut Tr, sched: &[usize], nwords: usize) -> Vec<usize> {
    let sh = Rc::new(RefCell::new(Shared { bytes: vec![], pos: 0, sched: sched.to_vec(), radix: vec![], calls: 0, log: vec![] }));
    let mut ad = WordAdapter::<W, _>::new(Faulty(sh.clone()));
    let id = tr.new_id();
    tr.emit(Ev::new("aw_new_w").i("o", id).i("wb", W::BYTES as i64));
    for i in 0..nwords {
        let wbts = word_bytes::<W>(i);
        tr.emit(Ev::new("aw_write_call").i("o", id).bytes("word", &wbts));
        let r = std::panic::catch_unwind(std::panic::AssertUnwindSafe(|| ad.write_word(from_bytes::<W>(&wbts))));
        flush_env(tr, id, &sh);
        let res = match r {
            Ok(Ok(())) => "ok",
            Ok(Err(_)) => "err",
            Err(_) => "panic",
        };
        tr.emit(Ev::new("aw_write_ret").i("o", id).s("res", res));
        if res != "ok" {
            break;
        }
    }
    let bytes = sh.borrow().bytes.clone();
    tr.emit(Ev::new("aw_sink").i("o", id).bytes("bytes", &bytes));
    let r = sh.borrow().radix.clone();
    r
}

fn run_read<W: Word>(tr: &mut Tr, sched: &[usize], nwords: usize, extra: usize) -> Vec<usize> {
    let mut src = vec![];
    for i in 0..nwords {
        src.extend(word_bytes::<W>(i));
    }
    // a trailing partial word: the adapter must report it as an error, not fabricate a word
    for j in 0..extra {
        src.push(200 + j as u8);
    }
    let sh = Rc::new(RefCell::new(Shared { bytes: src.clone(), pos: 0, sched: sched.to_vec(), radix: vec![], calls: 0, log: vec![] }));
    let mut ad = WordAdapter::<W, _>::new(Faulty(sh.clone()));
    let id = tr.new_id();
    tr.emit(Ev::new("aw_new_r").i("o", id).i("wb", W::BYTES as i64).bytes("src", &src));
    for _ in 0..=nwords {
        tr.emit(Ev::new("aw_read_call").i("o", id));
        let r = std::panic::catch_unwind(std::panic::AssertUnwindSafe(|| ad.read_word()));
        flush_env(tr, id, &sh);
        let (res, word) = match r {
            Ok(Ok(w)) => ("ok", w.to_ne_bytes().as_ref().to_vec()),
            Ok(Err(_)) => ("err", vec![]),
            Err(_) => ("panic", vec![]),
        };
        tr.emit(Ev::new("aw_read_ret").i("o", id).s("res", res).bytes("word", &word));
        if res != "ok" {
            break;
        }
        // positions over the seekable stream
        let bp = sh.borrow().pos;
        if let Ok(p) = ad.word_pos() {
            tr.emit(Ev::new("aw_pos").i("o", id).i("ret", p as i64).i("bytepos", bp as i64).i("wb", W::BYTES as i64));
        }
    }
    let r = sh.borrow().radix.clone();
    r
}

fn seeks<W: Word>(tr: &mut Tr, rng: &mut SmallRng) {
    let mut src = vec![];
    for i in 0..6 {
        src.extend(word_bytes::<W>(i));
    }
    let sh = Rc::new(RefCell::new(Shared { bytes: src.clone(), pos: 0, sched: vec![], radix: vec![], calls: 0, log: vec![] }));
    let mut ad = WordAdapter::<W, _>::new(Faulty(sh.clone()));
    let id = tr.new_id();
    tr.emit(Ev::new("aw_new_r").i("o", id).i("wb", W::BYTES as i64).bytes("src", &src));
    for it in 0..24 {
        // every other round: first leave the byte stream in the middle of a word (a read that gets j
        // bytes and then fails), so that word_pos() rounds up and a seek to that very word must still move
        let mut target = None;
        if it % 2 == 1 && W::BYTES > 1 {
            let wpos = rng.random_range(0..5u64);
            let _ = ad.set_word_pos(wpos);
            let j = rng.random_range(1..W::BYTES);
            {
                let mut s = sh.borrow_mut();
                s.calls = 0;
                s.sched = vec![W::BYTES - j, (W::BYTES - j) + 2];
            }
            let _ = ad.read_word();
            {
                let mut s = sh.borrow_mut();
                s.sched = vec![];
            }
            let bp = sh.borrow().pos;
            if let Ok(q) = ad.word_pos() {
                tr.emit(Ev::new("aw_pos").i("o", id).i("ret", q as i64).i("bytepos", bp as i64).i("wb", W::BYTES as i64));
                if it % 4 == 1 {
                    target = Some(q);
                }
            }
        }
        let p = target.unwrap_or_else(|| rng.random_range(0..6u64));
        let r = ad.set_word_pos(p);
        let bp = sh.borrow().pos;
        tr.emit(Ev::new("aw_setpos").i("o", id).i("p", p as i64).s("res", if r.is_ok() { "ok" } else { "err" }).i("bytepos", bp as i64).i("wb", W::BYTES as i64));
        if let Ok(q) = ad.word_pos() {
            tr.emit(Ev::new("aw_pos").i("o", id).i("ret", q as i64).i("bytepos", bp as i64).i("wb", W::BYTES as i64));
        }
    }
}

/// next schedule in the odometer order with dynamic radices, depth-bounded
fn next_sched(sched: &mut Vec<usize>, radix: &[usize], depth: usize) -> bool {
    let n = radix.len().min(depth);
    sched.resize(n, 0);
    let mut i = n;
    while i > 0 {
        i -= 1;
        if sched[i] + 1 < radix[i] {
            sched[i] += 1;
            sched.truncate(i + 1);
            return true;
        }
    }
    false
}

fn exhaustive<W: Word>(tr: &mut Tr, depth: usize, nwords: usize, tests: &mut u64, distinct: &mut HashSet<(usize, bool, Vec<usize>)>) {
    for write in [true, false] {
        let mut sched: Vec<usize> = vec![];
        loop {
            tr.reset();
            let radix = if write { run_write::<W>(tr, &sched, nwords) } else { run_read::<W>(tr, &sched, nwords, W::BYTES / 2) };
            *tests += 1;
            distinct.insert((W::BYTES, write, sched.clone()));
            if !next_sched(&mut sched, &radix, depth) {
                break;
            }
        }
    }
}

fn single_faults<W: Word>(tr: &mut Tr, nwords: usize, tests: &mut u64, distinct: &mut HashSet<(usize, bool, Vec<usize>)>) {
    for write in [true, false] {
        let base = if write { run_write::<W>(tr, &[], nwords) } else { run_read::<W>(tr, &[], nwords, W::BYTES / 2) };
        for i in 0..base.len() {
            for c in 1..base[i] {
                let mut sched = vec![0; i + 1];
                sched[i] = c;
                tr.reset();
                if write {
                    run_write::<W>(tr, &sched, nwords);
                } else {
                    run_read::<W>(tr, &sched, nwords, W::BYTES / 2);
                }
                *tests += 1;
                distinct.insert((W::BYTES, write, sched));
            }
        }
    }
}

fn random_scheds<W: Word>(tr: &mut Tr, rng: &mut SmallRng, n: usize, nwords: usize, tests: &mut u64, distinct: &mut HashSet<(usize, bool, Vec<usize>)>) {
    for _ in 0..n {
        let len = rng.random_range(1..12);
        let sched: Vec<usize> = (0..len)
            .map(|_| if rng.random_bool(0.5) { 0 } else { rng.random_range(0..W::BYTES + 3) })
            .collect();
        tr.reset();
        if rng.random_bool(0.5) {
            run_write::<W>(tr, &sched, nwords);
            distinct.insert((W::BYTES, true, sched));
        } else {
            run_read::<W>(tr, &sched, nwords, rng.random_range(0..W::BYTES));
            distinct.insert((W::BYTES, false, sched));
        }
        *tests += 1;
    }
}

pub fn run(tr: &mut Tr, seed: u64, depth: usize, nrand: usize) -> (u64, u64) {
    let mut rng = SmallRng::seed_from_u64(seed ^ 0x4144);
    let mut tests = 0u64;
    let mut distinct = HashSet::new();
    exhaustive::<u8>(tr, depth + 2, 3, &mut tests, &mut distinct);
    exhaustive::<u16>(tr, depth + 1, 3, &mut tests, &mut distinct);
    exhaustive::<u32>(tr, depth, 3, &mut tests, &mut distinct);
    single_faults::<u64>(tr, 3, &mut tests, &mut distinct);
    single_faults::<u128>(tr, 3, &mut tests, &mut distinct);
    random_scheds::<u32>(tr, &mut rng, nrand, 4, &mut tests, &mut distinct);
    random_scheds::<u64>(tr, &mut rng, nrand, 4, &mut tests, &mut distinct);
    random_scheds::<u128>(tr, &mut rng, nrand, 3, &mut tests, &mut distinct);
    tr.reset();
    seeks::<u16>(tr, &mut rng);
    tr.reset();
    seeks::<u32>(tr, &mut rng);
    tr.reset();
    seeks::<u64>(tr, &mut rng);
    tr.reset();
    seeks::<u128>(tr, &mut rng);
    (tests, distinct.len() as u64)
}
