//! C08: bulk copy.  From every fill state of the source reader (TLC-generated
//! histories, including states with more than a word buffered after a
//! look-ahead) and a range of destination fill levels, copy n bits with
//! copy_to and copy_from for n around every boundary (or all n), then run
//! continuations on both streams: look-ahead cycles, a table-driven code read
//! and a wide read on the source; a write, a second copy and a flush on the
//! destination.  TLC validates every event.

use crate::drivers::rstates::{continuation, load_paths, POp, StatePath};
use crate::dynio::*;
use crate::factory::*;
use crate::gen::*;
use crate::session::*;
use crate::trace::*;
use rand::rngs::SmallRng;
use rand::{Rng, SeedableRng};
use std::collections::HashSet;

fn go(tr: &mut Tr, rd: &mut TRd, path: &[POp]) {
    for p in path {
        if rd.dead {
            return;
        }
        match p {
            POp::Read(n) => {
                rd.read_bits(tr, *n);
            }
            POp::Peek(n) => {
                rd.peek_bits(tr, *n);
            }
            POp::Skip(n) => {
                rd.skip_bits(tr, *n);
            }
        }
    }
}

fn clean(v: u64, n: usize) -> u64 {
    if cfg!(feature = "checks") && n < 64 {
        v & ((1u64 << n) - 1)
    } else {
        v
    }
}

pub fn run(tr: &mut Tr, seed: u64, rpaths: &str, wpaths: &str, full: bool, shard: usize, nshards: usize) -> (u64, u64) {
    let mut rng = SmallRng::seed_from_u64(seed ^ 0x4350);
    let rp = load_paths(rpaths);
    let wp = load_paths(wpaths);
    let mut tests = 0u64;
    let mut distinct: HashSet<(usize, usize, usize, bool)> = HashSet::new();
    for (ci, cfg) in all_rcfgs().iter().enumerate() {
        if ci % nshards != shard {
            continue;
        }
        let w = cfg.w;
        let nbytes = ((8 * w + 700) / 64 + 1) * 8;
        let img = if rng.random_bool(0.4) { vec![0xFFu8; nbytes] } else { rand_image(&mut rng, nbytes) };
        let unbuf_paths: Vec<StatePath> = (0..64).step_by(if full { 1 } else { 5 }).map(|k| StatePath { w: 64, key: k, path: vec![POp::Skip(k)] }).collect();
        let plist: Vec<&StatePath> = if cfg.kind == "unbuf" { unbuf_paths.iter().collect() } else { rp.iter().filter(|p| p.w == w).collect() };
        for ww in WRITER_WORDS {
            if !full && ww != WRITER_WORDS[(seed as usize + ci) % 5] && ww != 128 {
                continue;
            }
            let mw = w.max(ww);
            let ns: Vec<u64> = if full && mw <= 16 {
                (0..=(4 * mw as u64 + 1)).collect()
            } else {
                let mut s: HashSet<u64> = [0u64, 1, 2, 63, 64, 65, 127, 128, 129].into_iter().collect();
                for b in [w as u64, ww as u64] {
                    for m in 1..=3u64 {
                        s.insert(m * b - 1);
                        s.insert(m * b);
                        s.insert(m * b + 1);
                    }
                }
                s.insert(4 * mw as u64 + 1);
                s.insert(rng.random_range(0..4 * mw as u64));
                let mut v: Vec<u64> = s.into_iter().collect();
                v.sort();
                v
            };
            let wcfg = WCfg { le: cfg.le, w: ww, backend: "vec", wrap: "none" };
            let wstates: Vec<&StatePath> = wp.iter().filter(|p| p.w == ww).collect();
            tr.reset();
            let mut base = TRd::new(tr, cfg, &img);
            let cloneable = base.r.try_clone().is_some();
            for sp in &plist {
                if base.dead {
                    tr.reset();
                    base = TRd::new(tr, cfg, &img);
                }
                match base.set_bit_pos(tr, 0) {
                    Some(Out::Ok(())) => {}
                    _ => continue,
                }
                go(tr, &mut base, &sp.path);
                if base.dead {
                    continue;
                }
                let mut ns_here = ns.clone();
                if let Some(rem) = base.remaining() {
                    if rem <= 4000 {
                        ns_here.extend([rem.saturating_sub(1), rem, rem + 1]);
                    }
                }
                for &n in &ns_here {
                    for dir_to in [true, false] {
                        tests += 1;
                        distinct.insert((ci, sp.key, ww, dir_to));
                        // destination at a random fill level
                        // (one time in three: word-aligned after a delivered word, the bit buffer still holding it)
                        let aligned_stale = wstates.iter().find(|p| p.key == ww && !p.path.is_empty());
                        let ws = match aligned_stale {
                            Some(a) if tests % 3 == 0 => *a,
                            _ => wstates[rng.random_range(0..wstates.len())],
                        };
                        let mut tw = TW::new(tr, &wcfg, 0);
                        for p in &ws.path {
                            match p {
                                POp::Read(k) => {
                                    tw.write_bits(tr, clean(0x5555_5555_5555_5555, *k), *k);
                                }
                                POp::Skip(x) => {
                                    tw.write_unary(tr, *x as u64);
                                }
                                _ => {}
                            }
                        }
                        let mut src = if cloneable {
                            base.try_clone(tr).unwrap()
                        } else {
                            // re-create the state on the only reader we have
                            let mut r = TRd::new(tr, cfg, &img);
                            go(tr, &mut r, &sp.path);
                            r
                        };
                        if !src.dead {
                            if dir_to {
                                src.copy_to(tr, &mut tw, n);
                            } else {
                                src.copy_from(tr, &mut tw, n);
                            }
                        }
                        // continuations on the source ...
                        if !src.dead {
                            continuation(tr, &mut src, true);
                        }
                        // a gamma code on arbitrary data is in the code's domain only if its unary part is short
                        if !src.dead && src.unary_safe() && src.zeros_ahead(40).map(|z| z < 30).unwrap_or(false) {
                            let c = CodeSpec::simple(Fam::Gamma);
                            let opt = if cfg.peek_max() >= 9 { 1 } else { 0 };
                            src.read_code(tr, &c, opt);
                        }
                        // ... and on the destination
                        if !tw.dead {
                            tw.write_bits(tr, 0x2AB, 11);
                        }
                        if !tw.dead && !src.dead {
                            if dir_to {
                                src.copy_from(tr, &mut tw, 5);
                            } else {
                                src.copy_to(tr, &mut tw, 5);
                            }
                        }
                        if !tw.dead {
                            tw.close(tr, "flush");
                        }
                        src.drop_obj(tr);
                        tr.emit(Ev::new("drop_writer").i("o", tw.id));
                    }
                }
            }
        }
    }
    (tests, distinct.len() as u64)
}
