//! C09: end of stream.  A valid stream of codes and fields is truncated
//! after every backend word; each truncation is read from the start by every
//! strict reader configuration (items inside the data must decode, the item
//! that needs a bit beyond the cut must fail) and by the zero-extended
//! readers (which never fail and see zeros).  TLC judges every event.

use crate::drivers::hist::{apply_items, rand_items, rand_read_opt, Item};
use crate::dynio::*;
use crate::factory::*;
use crate::session::*;
use crate::trace::*;
use rand::rngs::SmallRng;
use rand::{Rng, SeedableRng};
use std::collections::HashSet;

pub fn run(tr: &mut Tr, seed: u64, streams: usize, len: usize, shard: usize, nshards: usize, cut_step: usize) -> (u64, u64) {
    let mut rng = SmallRng::seed_from_u64(seed ^ 0x454f46);
    let mut tests = 0u64;
    let mut distinct: HashSet<(usize, usize, bool)> = HashSet::new();
    let rcfgs = all_rcfgs();
    for _ in 0..streams {
        let le = rng.random_bool(0.5);
        let items: Vec<Item> = rand_items(&mut rng, len, false, true)
            .into_iter()
            .map(|it| match it {
                // keep codewords short so that many items fit and the cut falls everywhere
                Item::Unary(x) => Item::Unary(x % 40),
                Item::Code { c, opt, v } if matches!(c.f, Fam::Unary) => Item::Code { c, opt, v: v % 40 },
                o => o,
            })
            .collect();
        tr.reset();
        let ww = WRITER_WORDS[rng.random_range(0..WRITER_WORDS.len())];
        let mut tw = TW::new(tr, &WCfg { le, w: ww, backend: "vec", wrap: "none" }, 0);
        let starts = apply_items(tr, &mut tw, &items);
        tw.close(tr, "flush");
        let mut img = tw.w.image();
        while img.len() % 8 != 0 {
            img.push(0);
        }
        for (ci, cfg) in rcfgs.iter().enumerate() {
            if cfg.le != le || ci % nshards != shard {
                continue;
            }
            let wb = cfg.w / 8;
            let nwords = img.len() / wb;
            let mut t = 0;
            while t <= nwords {
                let cut = &img[..t * wb];
                let cutbits = (t * cfg.w) as u64;
                tr.reset();
                // strict readers need whole words; an empty image is legal
                let mut rd = TRd::new(tr, cfg, &pad_to(cut, 8, cfg));
                let real_cut = rd.nbits;
                // (1) sequential pass from the start (every fourth cut): everything before the cut decodes,
                //     the first item that needs a missing bit fails
                if (t / cut_step.max(1)) % 4 == 0 {
                    for (i, it) in items.iter().enumerate() {
                        if rd.dead {
                            break;
                        }
                        let end = starts[i + 1];
                        if !cfg.strict() && end > real_cut.min(cutbits) {
                            // zero-extended: beyond the data only fixed-width operations (zeros forever)
                            rd.read_bits(tr, 64);
                            rd.peek_bits(tr, cfg.peek_max());
                            rd.skip_bits(tr, 3 * cfg.w + 1);
                            rd.read_bits(tr, 13);
                            break;
                        }
                        tests += 1;
                        distinct.insert((ci, t, end > cutbits));
                        read_item(tr, &mut rng, &mut rd, it, None);
                    }
                }
                // (2) the items that end near the cut or cross it, each decoded with every option
                //     the reader may use, from a fresh seek to the item's start
                if cfg.strict() {
                    for (i, it) in items.iter().enumerate() {
                        let (st, end) = (starts[i], starts[i + 1]);
                        if st >= real_cut || end + 3 * cfg.w as u64 <= real_cut {
                            continue;
                        }
                        let opts: Vec<u8> = match it {
                            Item::Code { c, .. } => crate::drivers::codes::read_opts(c, cfg),
                            _ => vec![0],
                        };
                        for o in opts {
                            if rd.dead {
                                tr.reset();
                                rd = TRd::new(tr, cfg, &pad_to(cut, 8, cfg));
                            }
                            match rd.set_bit_pos(tr, st) {
                                Some(Out::Ok(())) => {}
                                _ => continue,
                            }
                            tests += 1;
                            distinct.insert((ci, t, end > cutbits));
                            read_item(tr, &mut rng, &mut rd, it, Some(o));
                            // after a successful item the next operations still see the end of the data
                            if !rd.dead {
                                rd.read_bits(tr, 64);
                            }
                        }
                    }
                }
                rd.drop_obj(tr);
                t += cut_step.max(1);
            }
        }
    }
    (tests, distinct.len() as u64)
}

fn read_item(tr: &mut Tr, rng: &mut SmallRng, rd: &mut TRd, it: &Item, opt: Option<u8>) {
    let pm = rd.cfg.peek_max();
    match it {
        Item::Bits { n, .. } => {
            if rng.random_range(0..4) == 0 && *n >= 1 && *n <= pm {
                if rd.peek_bits(tr, *n).is_ok() {
                    rd.skip_bits_after_peek(tr, *n);
                }
            } else {
                rd.read_bits(tr, *n);
            }
        }
        Item::Unary(_) => {
            rd.read_unary(tr);
        }
        Item::Code { c, .. } => {
            let cfg = rd.cfg.clone();
            let o = opt.unwrap_or_else(|| rand_read_opt(rng, c, &cfg));
            rd.read_code(tr, c, o);
        }
        Item::Bytes(bs) => {
            if rd.read_bytes(tr, bs.len()).is_none() {
                rd.skip_bits(tr, 8 * bs.len());
            }
        }
        Item::Flush => {}
    }
}

/// Codes positioned so that they end before, exactly at, or beyond the end of a strict stream:
/// for every split point j the code starts j bits before the cut.
pub fn crossing(tr: &mut Tr, seed: u64, shard: usize, nshards: usize, only_vbyte: bool) -> (u64, u64) {
    use crate::drivers::codes::{read_opts, write_opts};
    use dsi_bitstream::prelude::*;
    let mut rng = SmallRng::seed_from_u64(seed ^ 0x4352);
    let mut tests = 0u64;
    let mut distinct: HashSet<(usize, usize, bool)> = HashSet::new();
    let cases: Vec<(CodeSpec, Vec<u64>)> = vec![
        (CodeSpec::simple(Fam::Gamma), vec![0, 1, 6, 22, 15, 300, 100000]),
        (CodeSpec::simple(Fam::Delta), vec![0, 1, 6, 22, 300, 40000]),
        (CodeSpec::k(Fam::Zeta, 3), vec![0, 1, 6, 7, 100, 511, 5000]),
        (CodeSpec::simple(Fam::Omega), vec![0, 1, 6, 300]),
        (CodeSpec::simple(Fam::Unary), vec![0, 3, 9]),
        (CodeSpec::k(Fam::Zeta, 2), vec![5, 300]),
        (CodeSpec::k(Fam::Pi, 2), vec![5, 300]),
        (CodeSpec::k(Fam::Rice, 3), vec![5, 30]),
        (CodeSpec::k(Fam::ExpGolomb, 2), vec![5, 300]),
        (CodeSpec::b(Fam::Golomb, 5), vec![3, 22]),
        (CodeSpec::simple(Fam::VByteLe), vec![5, 300]),
        (CodeSpec::simple(Fam::VByteBe), vec![5, 300]),
    ];
    let cases: Vec<(CodeSpec, Vec<u64>)> = if only_vbyte {
        vec![
            (CodeSpec::simple(Fam::VByteLe), vec![0, 5, 127, 128, 300, 16511, 16512, 3_000_000, u64::MAX]),
            (CodeSpec::simple(Fam::VByteBe), vec![0, 5, 127, 128, 300, 16511, 16512, 3_000_000, u64::MAX]),
        ]
    } else {
        cases
    };
    for (ci, cfg) in all_rcfgs().iter().enumerate() {
        if ci % nshards != shard || !cfg.strict() {
            continue;
        }
        let w = cfg.w as u64;
        let cutbits = 192u64.div_ceil(w) * w;
        for (c, vals) in &cases {
            for &v in vals {
                let len = match crate::drivers::codes::enum_of(c) {
                    Some(e) => e.len(v) as u64,
                    None => 8,
                };
                for j in 0..=(len + 2).min(cutbits) {
                    tr.reset();
                    let ww = WRITER_WORDS[rng.random_range(0..WRITER_WORDS.len())];
                    let mut tw = TW::new(tr, &WCfg { le: cfg.le, w: ww, backend: "vec", wrap: "none" }, 0);
                    let start = cutbits - j;
                    let mut left = start;
                    while left > 0 {
                        let k = left.min(60) as usize;
                        tw.write_bits(tr, rng.random::<u64>() & ((1u64 << k) - 1), k);
                        left -= k as u64;
                    }
                    let wo = write_opts(c);
                    tw.write_code(tr, c, wo[rng.random_range(0..wo.len())], v);
                    tw.write_bits(tr, u64::MAX >> 1, 63);
                    tw.write_bits(tr, u64::MAX >> 1, 63);
                    tw.close(tr, "flush");
                    let img = tw.w.image();
                    let cut: Vec<u8> = img[..(cutbits / 8) as usize].to_vec();
                    let mut rd = TRd::new(tr, cfg, &cut);
                    for o in read_opts(c, cfg) {
                        if rd.dead {
                            tr.reset();
                            rd = TRd::new(tr, cfg, &cut);
                        }
                        match rd.set_bit_pos(tr, start) {
                            Some(Out::Ok(())) => {}
                            _ => continue,
                        }
                        rd.read_code(tr, c, o);
                        if !rd.dead {
                            // whatever follows still sees the end of the data
                            rd.read_bits(tr, 1);
                        }
                        tests += 1;
                        distinct.insert((ci, j as usize, j < len));
                    }
                    rd.drop_obj(tr);
                }
            }
        }
    }
    (tests, distinct.len() as u64)
}

/// the readers are built from whole 64-bit multiples only when they need it
fn pad_to(cut: &[u8], _m: usize, cfg: &RCfg) -> Vec<u8> {
    let mut v = cut.to_vec();
    if cfg.kind == "unbuf" {
        // the unbuffered reader works on u64 words: cut at a u64 boundary
        let keep = v.len() / 8 * 8;
        v.truncate(keep);
    }
    v
}
