//! C09: end of stream.  A valid stream of codes and fields is truncated
//! after every backend word; each truncation is read from the start by every
//! strict reader configuration (items inside the data must decode, the item
//! that needs a bit beyond the cut must fail) and by the zero-extended
//! readers (which never fail and see zeros).  TLC judges every event.

use crate::drivers::hist::{apply_items, rand_items, rand_read_opt, Item};
use crate::dynio::*;
use crate::factory::*;
use crate::session::*;
use crate::trace::*;
use rand::rngs::SmallRng;
use rand::{Rng, SeedableRng};
use std::collections::HashSet;

pub fn run(tr: &mut Tr, seed: u64, streams: usize, len: usize, shard: usize, nshards: usize, cut_step: usize) -> (u64, u64) {
    let mut rng = SmallRng::seed_from_u64(seed ^ 0x454f46);
    let mut tests = 0u64;
    let mut distinct: HashSet<(usize, usize, bool)> = HashSet::new();
    let rcfgs = all_rcfgs();
    for _ in 0..streams {
        let le = rng.random_bool(0.5);
        let items: Vec<Item> = rand_items(&mut rng, len, false, true)
            .into_iter()
            .map(|it| match it {
                // keep codewords short so that many items fit and the cut falls everywhere
                Item::Unary(x) => Item::Unary(x % 40),
                Item::Code { c, opt, v } if matches!(c.f, Fam::Unary) => Item::Code { c, opt, v: v % 40 },
                o => o,
            })
            .collect();
        tr.reset();
        let ww = WRITER_WORDS[rng.random_range(0..WRITER_WORDS.len())];
        let mut tw = TW::new(tr, &WCfg { le, w: ww, backend: "vec", wrap: "none" }, 0);
        let starts = apply_items(tr, &mut tw, &items);
        tw.close(tr, "flush");
        let mut img = tw.w.image();
        while img.len() % 8 != 0 {
            img.push(0);
        }
        for (ci, cfg) in rcfgs.iter().enumerate() {
            if cfg.le != le || ci % nshards != shard {
                continue;
            }
            let wb = cfg.w / 8;
            let nwords = img.len() / wb;
            let mut t = 0;
            while t <= nwords {
                let cut = &img[..t * wb];
                let cutbits = (t * cfg.w) as u64;
                tr.reset();
                // strict readers need whole words; an empty image is legal
                let mut rd = TRd::new(tr, cfg, &pad_to(cut, 8, cfg));
                let real_cut = rd.nbits;
                for (i, it) in items.iter().enumerate() {
                    if rd.dead {
                        break;
                    }
                    let end = starts[i + 1];
                    if !cfg.strict() && end > real_cut.min(cutbits) {
                        // zero-extended: beyond the data only fixed-width operations (zeros forever)
                        rd.read_bits(tr, 64);
                        rd.peek_bits(tr, cfg.peek_max());
                        rd.skip_bits(tr, 3 * cfg.w + 1);
                        rd.read_bits(tr, 13);
                        break;
                    }
                    tests += 1;
                    distinct.insert((ci, t, end > cutbits));
                    match it {
                        Item::Bits { n, .. } => {
                            if rng.random_range(0..4) == 0 && *n >= 1 && *n <= cfg.peek_max() {
                                if rd.peek_bits(tr, *n).is_ok() {
                                    rd.skip_bits_after_peek(tr, *n);
                                }
                            } else {
                                rd.read_bits(tr, *n);
                            }
                        }
                        Item::Unary(_) => {
                            rd.read_unary(tr);
                        }
                        Item::Code { c, .. } => {
                            let opt = rand_read_opt(&mut rng, c, cfg);
                            rd.read_code(tr, c, opt);
                        }
                        Item::Bytes(bs) => {
                            if rd.read_bytes(tr, bs.len()).is_none() {
                                rd.skip_bits(tr, 8 * bs.len());
                            }
                        }
                        Item::Flush => {}
                    }
                }
                rd.drop_obj(tr);
                t += cut_step.max(1);
            }
        }
    }
    (tests, distinct.len() as u64)
}

/// the readers are built from whole 64-bit multiples only when they need it
fn pad_to(cut: &[u8], _m: usize, cfg: &RCfg) -> Vec<u8> {
    let mut v = cut.to_vec();
    if cfg.kind == "unbuf" {
        // the unbuffered reader works on u64 words: cut at a u64 boundary
        let keep = v.len() / 8 * 8;
        v.truncate(keep);
    }
    v
}
