//! C17 (signed/natural mapping), C18 (byte-level VByte), C20 (monotone
//! lengths, Kraft, change-point iterator): drivers for the stateless parts.

use crate::drivers::codes::{all_codes, enum_of};
use crate::dynio::*;
use crate::trace::*;
use dsi_bitstream::prelude::*;
use rand::rngs::SmallRng;
use rand::{Rng, SeedableRng};
use std::cell::Cell;
use std::collections::BTreeSet;
use std::io::Cursor;

// ------------------------------------------------------------------ C17

macro_rules! zz_type {
    ($tr:expr, $s:ty, $u:ty, $vals:expr, $tests:expr) => {{
        for &x in $vals.iter() {
            let x: $s = x;
            let y: $u = x.to_nat();
            $tr.emit(Ev::new("zz").s("dir", "to_nat").s("ty", stringify!($s)).bytes("x", &x.to_be_bytes()).bytes("y", &y.to_be_bytes()));
            let x2: $s = y.to_int();
            $tr.emit(Ev::new("zz").s("dir", "to_int").s("ty", stringify!($u)).bytes("x", &x2.to_be_bytes()).bytes("y", &y.to_be_bytes()));
            // and the other direction starting from the natural with the same bit pattern
            let y2: $u = x as $u;
            let x3: $s = y2.to_int();
            $tr.emit(Ev::new("zz").s("dir", "to_int").s("ty", stringify!($u)).bytes("x", &x3.to_be_bytes()).bytes("y", &y2.to_be_bytes()));
            $tests += 3;
        }
    }};
}

fn neighbourhood(bits: u32, near: i128, near_pow: i128, rng: &mut SmallRng, nrand: usize) -> Vec<i128> {
    // values of a `bits'-wide signed type, as i128
    let min: i128 = if bits == 128 { i128::MIN } else { -(1i128 << (bits - 1)) };
    let max: i128 = if bits == 128 { i128::MAX } else { (1i128 << (bits - 1)) - 1 };
    let mut s: BTreeSet<i128> = BTreeSet::new();
    let mut add = |c: i128, r: i128, s: &mut BTreeSet<i128>| {
        let lo = c.saturating_sub(r).max(min);
        let hi = c.saturating_add(r).min(max);
        let mut v = lo;
        loop {
            s.insert(v);
            if v == hi {
                break;
            }
            v += 1;
        }
    };
    add(0, near, &mut s);
    add(min, near, &mut s);
    add(max, near, &mut s);
    for i in 1..(bits - 1) {
        let p = 1i128 << i;
        add(p, near_pow, &mut s);
        add(-p, near_pow, &mut s);
    }
    for _ in 0..nrand {
        let v: i128 = rng.random::<i128>() >> rng.random_range(0..bits.min(127));
        let v = if bits == 128 { v } else { ((v << (128 - bits)) >> (128 - bits)) };
        s.insert(v.clamp(min, max));
    }
    s.into_iter().collect()
}

pub fn zigzag(tr: &mut Tr, seed: u64, near_log: u32, pow_log: u32, part: usize) -> (u64, u64) {
    let mut rng = SmallRng::seed_from_u64(seed ^ 0x5a5a);
    let mut tests = 0u64;
    match part {
        0 => {
            let v8: Vec<i8> = (i8::MIN..=i8::MAX).collect();
            zz_type!(tr, i8, u8, v8, tests);
            let v16: Vec<i16> = (i16::MIN..=i16::MAX).collect();
            zz_type!(tr, i16, u16, v16, tests);
        }
        1 => {
            let v: Vec<i32> = neighbourhood(32, 1 << near_log, 1 << pow_log, &mut rng, 2000).into_iter().map(|x| x as i32).collect();
            zz_type!(tr, i32, u32, v, tests);
        }
        2 => {
            let v: Vec<i64> = neighbourhood(64, 1 << near_log, 1 << pow_log, &mut rng, 2000).into_iter().map(|x| x as i64).collect();
            zz_type!(tr, i64, u64, v, tests);
        }
        3 => {
            let v: Vec<isize> = neighbourhood(64, 1 << near_log, 1 << pow_log, &mut rng, 2000).into_iter().map(|x| x as isize).collect();
            zz_type!(tr, isize, usize, v, tests);
        }
        _ => {
            let v: Vec<i128> = neighbourhood(128, 1 << near_log, 1 << pow_log, &mut rng, 2000);
            zz_type!(tr, i128, u128, v, tests);
        }
    }
    (tests, tests / 3)
}

/// The whole 32-bit types, exhaustively: the driver walks all 2^32 values and logs the observed
/// function in run-length form - maximal segments on which consecutive outputs differ by a constant
/// (stride 1 for to_nat, stride 2 for to_int: even and odd naturals form two linear families).
/// A correct mapping gives a handful of segments; TLC checks each segment's end points and slope
/// against the specification, which pins the function on every value of the segment.
pub fn zigzag_sweep32(tr: &mut Tr) -> (u64, u64) {
    fn emit(tr: &mut Tr, dir: &str, stride: u64, segs: &[(u32, u64, i64, u32)]) {
        // (first input as raw bits, number of steps, delta, first output as raw bits)
        let mut js = String::from("[");
        for (i, (x0, cnt, d, y0)) in segs.iter().enumerate() {
            if i > 0 {
                js.push(',');
            }
            let xb = x0.to_be_bytes();
            let yb = y0.to_be_bytes();
            let cb = cnt.to_be_bytes();
            js.push_str(&format!(
                "[[{},{},{},{}],[{},{},{},{},{},{},{},{}],{},[{},{},{},{}]]",
                xb[0], xb[1], xb[2], xb[3], cb[0], cb[1], cb[2], cb[3], cb[4], cb[5], cb[6], cb[7], d, yb[0], yb[1], yb[2], yb[3]
            ));
        }
        js.push(']');
        tr.emit(Ev::new("zz_sweep").s("dir", dir).i("w", 32).i("stride", stride as i64).i("nsegs", segs.len() as i64).raw("segs", &js));
    }
    // to_nat over all i32 in increasing order MIN..=MAX
    let mut segs: Vec<(u32, u64, i64, u32)> = vec![];
    let mut x = i32::MIN;
    let mut prev: u32 = x.to_nat();
    let mut cur: (u32, u64, i64, u32) = (x as u32, 0, 0, prev);
    loop {
        if x == i32::MAX {
            break;
        }
        x += 1;
        let y: u32 = x.to_nat();
        let d = y as i64 - prev as i64;
        if cur.1 == 0 {
            cur.2 = d;
            cur.1 = 1;
        } else if d == cur.2 {
            cur.1 += 1;
        } else {
            segs.push(cur);
            cur = ((x - 1) as u32, 1, d, prev);
        }
        prev = y;
        if segs.len() > 1000 {
            break;
        }
    }
    segs.push(cur);
    emit(tr, "to_nat", 1, &segs);
    // to_int over all u32: the even naturals and the odd naturals separately
    for parity in 0..2u32 {
        let mut segs: Vec<(u32, u64, i64, u32)> = vec![];
        let mut y: u32 = parity;
        let mut prev: i32 = y.to_int();
        let mut cur: (u32, u64, i64, u32) = (y, 0, 0, prev as u32);
        loop {
            let (ny, of) = y.overflowing_add(2);
            if of {
                break;
            }
            y = ny;
            let v: i32 = y.to_int();
            let d = v as i64 - prev as i64;
            if cur.1 == 0 {
                cur.2 = d;
                cur.1 = 1;
            } else if d == cur.2 {
                cur.1 += 1;
            } else {
                segs.push(cur);
                cur = (y - 2, 1, d, prev as u32);
            }
            prev = v;
            if segs.len() > 1000 {
                break;
            }
        }
        segs.push(cur);
        emit(tr, if parity == 0 { "to_int_even" } else { "to_int_odd" }, 2, &segs);
    }
    (1u64 << 33, 1u64 << 33)
}

// ------------------------------------------------------------------ C18

/// a byte sink that accepts at most `chunk' bytes per call and `cap' bytes in all (then Ok(0), as a full slice does)
struct ChunkSink {
    out: Vec<u8>,
    chunk: usize,
    cap: usize,
}
impl std::io::Write for ChunkSink {
    fn write(&mut self, buf: &[u8]) -> std::io::Result<usize> {
        let n = buf.len().min(self.chunk).min(self.cap - self.out.len());
        self.out.extend_from_slice(&buf[..n]);
        Ok(n)
    }
    fn flush(&mut self) -> std::io::Result<()> {
        Ok(())
    }
}

fn vb_write_ev(tr: &mut Tr, variant: &str, v: u64) {
    vb_write_sink(tr, variant, v, usize::MAX, usize::MAX);
}

fn vb_write_sink(tr: &mut Tr, variant: &str, v: u64, chunk: usize, cap: usize) {
    let mut sink = ChunkSink { out: vec![], chunk, cap };
    let r = match variant {
        "be" => vbyte_write_be(v, &mut sink),
        "le" => vbyte_write_le(v, &mut sink),
        "generic-be" => vbyte_write::<BE, _>(v, &mut sink),
        _ => vbyte_write::<LE, _>(v, &mut sink),
    };
    let e = Ev::new("vb_write").s("variant", variant).u64("v", v).s("res", if r.is_ok() { "ok" } else { "err" }).i("ret", r.map(|x| x as i64).unwrap_or(-1)).bytes("bytes", &sink.out);
    let e = if cap != usize::MAX { e.i("cap", cap as i64) } else { e };
    let e = if chunk != usize::MAX { e.i("chunk", chunk as i64) } else { e };
    tr.emit(e);
}

fn vb_read_ev(tr: &mut Tr, variant: &str, bytes: &[u8]) {
    let mut cur = Cursor::new(bytes.to_vec());
    let r = std::panic::catch_unwind(std::panic::AssertUnwindSafe(|| match variant {
        "be" => vbyte_read_be(&mut cur),
        "le" => vbyte_read_le(&mut cur),
        "generic-be" => vbyte_read::<BE, _>(&mut cur),
        _ => vbyte_read::<LE, _>(&mut cur),
    }));
    let (res, v) = match r {
        Ok(Ok(v)) => ("ok", v),
        Ok(Err(_)) => ("err", 0),
        Err(_) => ("panic", 0),
    };
    tr.emit(Ev::new("vb_read").s("variant", variant).bytes("bytes", bytes).s("res", res).u64("v", v).i("consumed", cur.position() as i64));
}

pub fn vbyteio(tr: &mut Tr, seed: u64, dense_log: u32, maxlen: usize, sample3: usize) -> (u64, u64) {
    let mut rng = SmallRng::seed_from_u64(seed ^ 0x7662);
    let mut tests = 0u64;
    let mut vals: BTreeSet<u64> = (0..(1u64 << dense_log)).collect();
    // every length step +-2, up to 10 bytes
    let mut thr: u128 = 0;
    for i in 1..=10u32 {
        thr += 1u128 << (7 * i);
        for d in -2i128..=2 {
            let x = thr as i128 + d;
            if x >= 0 && x <= u64::MAX as i128 {
                vals.insert(x as u64);
            }
        }
    }
    vals.insert(u64::MAX);
    vals.insert(u64::MAX - 1);
    for _ in 0..500 {
        vals.insert(rng.random::<u64>() >> rng.random_range(0..64));
    }
    for (vi, &v) in vals.iter().enumerate() {
        if vi % 4096 == 0 {
            tr.reset(); // (stateless events: a reset only lets the validator split the trace)
        }
        for variant in ["be", "le", "generic-be", "generic-le"] {
            vb_write_ev(tr, variant, v);
            tests += 1;
        }
        // sinks that take a few bytes per call, and sinks that run out of room (a slice)
        if v < 300 || v > (1 << 21) || v % 509 == 0 {
            let len = byte_len_vbyte(v);
            for variant in ["be", "le", "generic-be", "generic-le"] {
                vb_write_sink(tr, variant, v, 1 + ((v % 3) as usize + len) % 3, usize::MAX);
                let cap = (v as usize / 3 + len + 1) % (len + 2);
                vb_write_sink(tr, variant, v, usize::MAX, cap);
                tests += 2;
            }
        }
        // decode what the library encoded, followed by junk
        for variant in ["be", "le"] {
            let mut buf = vec![];
            if variant == "be" {
                vbyte_write_be(v, &mut buf).unwrap();
            } else {
                vbyte_write_le(v, &mut buf).unwrap();
            }
            buf.push(0x55);
            vb_read_ev(tr, variant, &buf);
            vb_read_ev(tr, if variant == "be" { "generic-be" } else { "generic-le" }, &buf);
            tests += 2;
        }
    }
    // completeness: every terminated byte string up to maxlen (continuation bytes then a final byte)
    let mut strings: Vec<Vec<u8>> = vec![];
    fn rec(prefix: &mut Vec<u8>, left: usize, out: &mut Vec<Vec<u8>>) {
        for last in 0..128u8 {
            let mut s = prefix.clone();
            s.push(last);
            out.push(s);
        }
        if left > 1 {
            for c in 0..128u8 {
                prefix.push(0x80 | c);
                rec(prefix, left - 1, out);
                prefix.pop();
            }
        }
    }
    rec(&mut vec![], maxlen, &mut strings);
    for (si, s) in strings.iter().enumerate() {
        if si % 50_000 == 0 {
            tr.reset();
        }
        vb_read_ev(tr, "be", s);
        vb_read_ev(tr, "le", s);
        tests += 2;
    }
    // longer strings at random (quick tier: a sample of length 3 too)
    for _ in 0..sample3 {
        let len = rng.random_range(3..=9);
        let mut s: Vec<u8> = (0..len - 1).map(|_| 0x80 | rng.random_range(0..128u8)).collect();
        s.push(rng.random_range(0..128u8));
        vb_read_ev(tr, "be", &s);
        vb_read_ev(tr, "le", &s);
        // truncated strings must be errors
        let t = &s[..len - 1];
        vb_read_ev(tr, "be", t);
        tests += 3;
    }
    (tests, (vals.len() + strings.len()) as u64)
}

// ------------------------------------------------------------------ C20

fn lib_len(c: &CodeSpec, opt: u8, v: u64) -> usize {
    match c.f {
        Fam::Unary => v as usize + 1,
        Fam::Gamma => {
            if opt == 1 {
                len_gamma_param::<true>(v)
            } else if opt == OPT_DEFAULT {
                len_gamma(v)
            } else {
                len_gamma_param::<false>(v)
            }
        }
        Fam::Delta => match opt {
            0 => len_delta_param::<false, false>(v),
            1 => len_delta_param::<true, false>(v),
            2 => len_delta_param::<false, true>(v),
            3 => len_delta_param::<true, true>(v),
            _ => len_delta(v),
        },
        Fam::Omega => len_omega(v),
        Fam::Zeta => {
            if opt == 1 {
                len_zeta_param::<true>(v, c.k)
            } else if opt == OPT_DEFAULT {
                len_zeta(v, c.k)
            } else {
                len_zeta_param::<false>(v, c.k)
            }
        }
        Fam::Pi => len_pi(v, c.k),
        Fam::Rice => len_rice(v, c.k),
        Fam::ExpGolomb => len_exp_golomb(v, c.k),
        Fam::Golomb => len_golomb(v, c.b),
        Fam::MinBin => len_minimal_binary(v, c.b),
        Fam::VByteBe | Fam::VByteLe => bit_len_vbyte(v),
    }
}

fn c20_codes(full: bool) -> Vec<CodeSpec> {
    let mut v = vec![
        CodeSpec::simple(Fam::Gamma),
        CodeSpec::simple(Fam::Delta),
        CodeSpec::simple(Fam::Omega),
        CodeSpec::simple(Fam::VByteBe),
        CodeSpec::simple(Fam::Unary),
    ];
    let ks: Vec<usize> = if full { (0..=16).chain([20, 31, 32, 40, 63]).collect() } else { vec![0, 1, 2, 3, 5, 8, 16, 33] };
    for &k in &ks {
        if k >= 1 {
            v.push(CodeSpec::k(Fam::Zeta, k));
        }
        v.push(CodeSpec::k(Fam::Pi, k));
        v.push(CodeSpec::k(Fam::ExpGolomb, k));
        v.push(CodeSpec::k(Fam::Rice, k));
    }
    let bs: Vec<u64> = if full { (1..=64).chain([100, 1000, 65535, 65536, 1 << 20, (1 << 33) + 1]).collect() } else { vec![1, 2, 3, 5, 7, 8, 13, 64, 1000, (1 << 33) + 1] };
    for &b in &bs {
        v.push(CodeSpec::b(Fam::Golomb, b));
    }
    let _ = all_codes;
    let _ = enum_of;
    v
}

/// all values below `upto': monotone? and every change point
fn len_steps(tr: &mut Tr, c: &CodeSpec, opt: u8, upto: u64) {
    let mut steps: Vec<(u64, usize)> = vec![];
    let mut mono = true;
    let mut prev = usize::MAX;
    for n in 0..upto {
        let l = lib_len(c, opt, n);
        if n == 0 || l != prev {
            if n > 0 && l < prev {
                mono = false;
            }
            steps.push((n, l));
            prev = l;
        }
        if steps.len() > 5000 {
            // unary-like growth: a step at every value; bounded listing
            break;
        }
    }
    let covered = if steps.len() > 5000 { steps.last().unwrap().0 } else { upto };
    let mut js = String::from("[");
    for (i, (x, l)) in steps.iter().enumerate() {
        if steps.len() > 5000 && i == steps.len() - 1 {
            break;
        }
        if i > 0 {
            js.push(',');
        }
        let b = x.to_be_bytes();
        js.push_str(&format!("[[{},{},{},{},{},{},{},{}],{}]", b[0], b[1], b[2], b[3], b[4], b[5], b[6], b[7], l));
    }
    js.push(']');
    tr.emit(Ev::new("len_steps").code(c, opt).b("monotone", mono).u64("upto", covered).raw("steps", &js));
}

/// an IEEE double as (odd mantissa, exponent): p = m * 2^e exactly
fn f64_exact(p: f64) -> (u64, i64) {
    if p == 0.0 {
        return (0, 0);
    }
    let bits = p.to_bits();
    let ef = ((bits >> 52) & 0x7ff) as i64;
    let frac = bits & ((1u64 << 52) - 1);
    let (mut m, mut e) = if ef == 0 { (frac, -1074) } else { (frac | (1u64 << 52), ef - 1075) };
    let tz = m.trailing_zeros();
    m >>= tz;
    e += tz as i64;
    (m, e)
}

/// returns true iff the iterator ended (returned None)
fn cp_iter<F: Fn(u64) -> usize>(tr: &mut Tr, id: i64, f: F, max_yields: usize, max_evals: u64) -> bool {
    // watchdog: a next() that evaluates f more than max_evals times is reported as a hang
    let evals = Cell::new(0u64);
    let g = |x: u64| {
        evals.set(evals.get() + 1);
        if evals.get() > max_evals {
            panic!("__hang__");
        }
        f(x)
    };
    let mut it = FindChangePoints::new(g);
    for _ in 0..max_yields {
        evals.set(0);
        let r = std::panic::catch_unwind(std::panic::AssertUnwindSafe(|| it.next()));
        match r {
            Ok(Some((x, fx))) => {
                tr.emit(Ev::new("cp_next").i("o", id).s("res", "some").u64("x", x).i("fx", fx as i64).i("evals", evals.get() as i64));
            }
            Ok(None) => {
                tr.emit(Ev::new("cp_next").i("o", id).s("res", "none").u64("x", 0).i("fx", 0).i("evals", evals.get() as i64));
                return true;
            }
            Err(_) => {
                let res = if evals.get() > max_evals { "hang" } else { "panic" };
                tr.emit(Ev::new("cp_next").i("o", id).s("res", res).u64("x", 0).i("fx", 0).i("evals", evals.get() as i64));
                return false;
            }
        }
    }
    false
}

pub fn changepoints(tr: &mut Tr, seed: u64, full: bool, upto_log: u32) -> (u64, u64) {
    let mut rng = SmallRng::seed_from_u64(seed ^ 0x4350_5453);
    let mut tests = 0u64;
    // (a) library length functions: all values below 2^upto_log, change points, iterator, Kraft
    for c in c20_codes(full) {
        let opts: Vec<u8> = match c.f {
            Fam::Gamma => vec![0, 1, OPT_DEFAULT],
            Fam::Delta => vec![0, 3, OPT_DEFAULT],
            Fam::Zeta => vec![0, 1],
            _ => vec![0],
        };
        for &opt in &opts {
            len_steps(tr, &c, opt, 1u64 << upto_log);
            tests += 1;
        }
        tr.reset();
        let id = tr.new_id();
        tr.emit(Ev::new("cp_new").i("o", id).s("kind", "code").code(&c, 0));
        let unbounded = matches!(c.f, Fam::Unary) || (c.f == Fam::Rice && c.k < 40) || (c.f == Fam::Golomb && c.b < (1 << 40));
        let cc = c;
        let ended = cp_iter(tr, id, move |x| lib_len(&cc, 0, x), if unbounded { 60 } else { 400 }, 1_000_000);
        // Kraft over the brackets, for the length functions whose iterator ran to its end
        if ended {
            tr.emit(Ev::new("cp_kraft").i("o", id));
        }
        tests += 1;
        // the implied distribution can be set up (terminates) for every code
        let cc2 = c;
        let r = std::panic::catch_unwind(std::panic::AssertUnwindSafe(|| get_implied_distribution(move |x| lib_len(&cc2, 0, x))));
        tr.reset();
        let id2 = tr.new_id();
        tr.emit(Ev::new("cp_new").i("o", id2).s("kind", "code").code(&c, 0));
        match r {
            Ok((cps, probs)) => {
                for (x, l) in &cps {
                    tr.emit(Ev::new("cp_next").i("o", id2).s("res", "some").u64("x", *x).i("fx", *l as i64).i("evals", 0));
                }
                // witness of completeness: the change point that the 128-bit cut dropped (if any)
                let cc3 = c;
                let ncp = cps.len();
                let nxt = std::panic::catch_unwind(std::panic::AssertUnwindSafe(|| FindChangePoints::new(move |x| lib_len(&cc3, 0, x)).nth(ncp)));
                let mut pj = String::from("[");
                for (i, p) in probs.iter().enumerate() {
                    if i > 0 {
                        pj.push(',');
                    }
                    let (m, e) = f64_exact(*p);
                    let b = m.to_be_bytes();
                    pj.push_str(&format!("[[{},{},{},{},{},{},{},{}],{}]", b[0], b[1], b[2], b[3], b[4], b[5], b[6], b[7], e));
                }
                pj.push(']');
                // samples
                let cc4 = c;
                let nsamples = 48usize;
                let mut srng = SmallRng::seed_from_u64(seed ^ (ncp as u64) << 8 ^ c.k as u64 ^ c.b);
                let sm = std::panic::catch_unwind(std::panic::AssertUnwindSafe(|| {
                    sample_implied_distribution(move |x| lib_len(&cc4, 0, x), &mut srng).take(nsamples).collect::<Vec<u64>>()
                }));
                let mut sj = String::from("[");
                if let Ok(v) = &sm {
                    for (i, x) in v.iter().enumerate() {
                        if i > 0 {
                            sj.push(',');
                        }
                        let b = x.to_be_bytes();
                        sj.push_str(&format!("[{},{},{},{},{},{},{},{}]", b[0], b[1], b[2], b[3], b[4], b[5], b[6], b[7]));
                    }
                }
                sj.push(']');
                let ev = Ev::new("implied").i("o", id2).raw("probs", &pj).s("sres", if sm.is_ok() { "ok" } else { "panic" }).i("nsamples", nsamples as i64).raw("samples", &sj);
                let ev = match nxt {
                    Ok(Some((x, _))) => ev.s("nxt", "some").u64("nx", x),
                    Ok(None) => ev.s("nxt", "none").u64("nx", 0),
                    Err(_) => ev.s("nxt", "panic").u64("nx", 0),
                };
                tr.emit(ev);
                tests += 1;
            }
            Err(_) => {
                tr.emit(Ev::new("cp_next").i("o", id2).s("res", "panic").u64("x", 0).i("fx", 0).i("evals", 0));
            }
        }
        tests += 1;
    }
    // (b) synthetic monotone step functions
    let mut cands: Vec<u64> = vec![1, 2, 3];
    for i in 2..64u32 {
        let p = 1u64 << i;
        cands.push(p - 1);
        cands.push(p);
        cands.push(p + 1);
    }
    cands.push((1 << 63) - 1);
    cands.push(1 << 63);
    cands.push((1 << 63) + 1);
    cands.push(u64::MAX - 1);
    cands.sort();
    cands.dedup();
    let mut funcs: Vec<Vec<u64>> = vec![vec![]];
    for &a in &cands {
        funcs.push(vec![a]);
    }
    let n2 = if full { 3000 } else { 300 };
    for _ in 0..n2 {
        let k = rng.random_range(2..=4);
        let mut s: BTreeSet<u64> = BTreeSet::new();
        while s.len() < k {
            s.insert(if rng.random_bool(0.7) { cands[rng.random_range(0..cands.len())] } else { rng.random::<u64>() >> rng.random_range(0..64) }.max(1));
        }
        funcs.push(s.into_iter().collect());
    }
    for steps in funcs {
        tr.reset();
        let id = tr.new_id();
        let v0 = rng.random_range(0..5usize);
        let mut js = String::from("[");
        for (i, p) in steps.iter().enumerate() {
            if i > 0 {
                js.push(',');
            }
            let b = p.to_be_bytes();
            js.push_str(&format!("[[{},{},{},{},{},{},{},{}],{}]", b[0], b[1], b[2], b[3], b[4], b[5], b[6], b[7], v0 + i + 1));
        }
        js.push(']');
        tr.emit(Ev::new("cp_new").i("o", id).s("kind", "steps").i("v0", v0 as i64).raw("steps", &js));
        let st = steps.clone();
        cp_iter(tr, id, move |x| v0 + st.iter().filter(|p| **p <= x).count(), 10, 100_000);
        tests += 1;
    }
    (tests, tests)
}
