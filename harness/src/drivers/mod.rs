pub mod hist;
