//! C10 / C16: every dispatch mechanism, addressed by the NAME of the code.
//! For all 51 compile-time constants and every enumeration variant with
//! parameters 0..=12 and a few larger ones: writes, reads and lengths
//! through the enumeration, the constants, the function-pointer objects
//! (new / new_with_func(get_func)), the reader factory and the statistics
//! wrapper around each of them.  The trace carries only the name used and
//! what happened (bytes delivered, value, length): TLC resolves the name to
//! a code and compares with that code's own definition.
//! Also: text round trips, malformed text, identifier round trips, equality.

use crate::dynio::{NullSink, Recording};
use crate::gen::pow2_grid;
use crate::trace::*;
use dsi_bitstream::prelude::*;
use rand::rngs::SmallRng;
use rand::{Rng, SeedableRng};
use std::cell::RefCell;
use std::collections::HashSet;
use std::rc::Rc;

/// (prefix, index, value of the constant)
macro_rules! consts_table {
    ($m:ident) => {
        $m! {
            ("UNARY", 0, UNARY), ("GAMMA", 0, GAMMA), ("DELTA", 0, DELTA), ("OMEGA", 0, OMEGA),
            ("VBYTE_BE", 0, VBYTE_BE), ("VBYTE_LE", 0, VBYTE_LE),
            ("ZETA", 1, ZETA1), ("ZETA", 2, ZETA2), ("ZETA", 3, ZETA3), ("ZETA", 4, ZETA4), ("ZETA", 5, ZETA5),
            ("ZETA", 6, ZETA6), ("ZETA", 7, ZETA7), ("ZETA", 8, ZETA8), ("ZETA", 9, ZETA9), ("ZETA", 10, ZETA10),
            ("RICE", 0, RICE0), ("RICE", 1, RICE1), ("RICE", 2, RICE2), ("RICE", 3, RICE3), ("RICE", 4, RICE4), ("RICE", 5, RICE5),
            ("RICE", 6, RICE6), ("RICE", 7, RICE7), ("RICE", 8, RICE8), ("RICE", 9, RICE9), ("RICE", 10, RICE10),
            ("PI", 0, PI0), ("PI", 1, PI1), ("PI", 2, PI2), ("PI", 3, PI3), ("PI", 4, PI4), ("PI", 5, PI5),
            ("PI", 6, PI6), ("PI", 7, PI7), ("PI", 8, PI8), ("PI", 9, PI9), ("PI", 10, PI10),
            ("GOLOMB", 1, GOLOMB1), ("GOLOMB", 2, GOLOMB2), ("GOLOMB", 3, GOLOMB3), ("GOLOMB", 4, GOLOMB4), ("GOLOMB", 5, GOLOMB5),
            ("GOLOMB", 6, GOLOMB6), ("GOLOMB", 7, GOLOMB7), ("GOLOMB", 8, GOLOMB8), ("GOLOMB", 9, GOLOMB9), ("GOLOMB", 10, GOLOMB10),
            ("EXP_GOLOMB", 0, EXP_GOLOMB0), ("EXP_GOLOMB", 1, EXP_GOLOMB1), ("EXP_GOLOMB", 2, EXP_GOLOMB2), ("EXP_GOLOMB", 3, EXP_GOLOMB3),
            ("EXP_GOLOMB", 4, EXP_GOLOMB4), ("EXP_GOLOMB", 5, EXP_GOLOMB5), ("EXP_GOLOMB", 6, EXP_GOLOMB6), ("EXP_GOLOMB", 7, EXP_GOLOMB7),
            ("EXP_GOLOMB", 8, EXP_GOLOMB8), ("EXP_GOLOMB", 9, EXP_GOLOMB9), ("EXP_GOLOMB", 10, EXP_GOLOMB10)
        }
    };
}

macro_rules! const_names {
    ($(($p:literal, $i:literal, $c:ident)),*) => {
        pub const CONST_NAMES: &[(&str, usize, usize)] = &[$(($p, $i, code_consts::$c)),*];
    };
}
consts_table!(const_names);

type WB<E> = BufBitWriter<E, Recording<NullSink<u64>>>;
type RB<E> = BufBitReader<E, MemWordReader<u32, Vec<u32>>>;

macro_rules! const_dispatch {
    ($(($p:literal, $i:literal, $c:ident)),*) => {
        fn const_write<E: Endianness>(p: &str, i: usize, stat: bool, w: &mut WB<E>, v: u64) -> Option<Result<usize, std::convert::Infallible>>
        where WB<E>: CodesWrite<E, Error = std::convert::Infallible> {
            $(if p == $p && i == $i {
                let c = ConstCode::<{ code_consts::$c }>;
                return Some(if stat { StaticCodeWrite::<E, WB<E>>::write(&c, w, v) } else { c.write(w, v) });
            })*
            None
        }
        fn const_read<E: Endianness, R: CodesRead<E>>(p: &str, i: usize, stat: bool, r: &mut R) -> Option<Result<u64, R::Error>> {
            $(if p == $p && i == $i {
                let c = ConstCode::<{ code_consts::$c }>;
                return Some(if stat { StaticCodeRead::<E, R>::read(&c, r) } else { c.read(r) });
            })*
            None
        }
        fn const_len(p: &str, i: usize, v: u64) -> Option<usize> {
            $(if p == $p && i == $i {
                return Some(ConstCode::<{ code_consts::$c }>.len(v));
            })*
            None
        }
        fn const_stats_write<E: Endianness>(p: &str, i: usize, w: &mut WB<E>, v: u64) -> Option<(Result<usize, std::convert::Infallible>, u64)>
        where WB<E>: CodesWrite<E, Error = std::convert::Infallible> {
            $(if p == $p && i == $i {
                let c = CodesStatsWrapper::<_>::new(ConstCode::<{ code_consts::$c }>);
                let r = DynamicCodeWrite::write(&c, w, v);
                let t = c.stats().lock().unwrap().total;
                return Some((r, t));
            })*
            None
        }
    };
}
consts_table!(const_dispatch);

#[derive(Clone, Debug)]
pub enum Ident {
    Const(&'static str, usize),
    Enum(Codes),
}

fn enum_name(c: &Codes) -> (&'static str, u64) {
    match c {
        Codes::Unary => ("Unary", 0),
        Codes::Gamma => ("Gamma", 0),
        Codes::Delta => ("Delta", 0),
        Codes::Omega => ("Omega", 0),
        Codes::VByteBe => ("VByteBe", 0),
        Codes::VByteLe => ("VByteLe", 0),
        Codes::Zeta { k } => ("Zeta", *k as u64),
        Codes::Pi { k } => ("Pi", *k as u64),
        Codes::Golomb { b } => ("Golomb", *b as u64),
        Codes::ExpGolomb { k } => ("ExpGolomb", *k as u64),
        Codes::Rice { log2_b } => ("Rice", *log2_b as u64),
        _ => ("?", 0),
    }
}

fn ident_fields(e: Ev, id: &Ident) -> Ev {
    match id {
        Ident::Const(p, i) => e.s("idk", "const").s("cn", p).i("ci", *i as i64),
        Ident::Enum(c) => {
            let (n, p) = enum_name(c);
            e.s("idk", "enum").s("en", n).u64("ep", p)
        }
    }
}

pub fn all_enums() -> Vec<Codes> {
    let mut v = vec![Codes::Unary, Codes::Gamma, Codes::Delta, Codes::Omega, Codes::VByteBe, Codes::VByteLe];
    for k in (0..=12).chain([16, 31, 63]) {
        if k >= 1 {
            v.push(Codes::Zeta { k });
            v.push(Codes::Golomb { b: k });
        }
        v.push(Codes::Pi { k });
        v.push(Codes::ExpGolomb { k });
        v.push(Codes::Rice { log2_b: k });
    }
    v.push(Codes::Golomb { b: 1000 });
    v.push(Codes::Golomb { b: (1usize << 40) + 1 });
    v
}

fn values_for(id: &Ident, rng: &mut SmallRng, dense: u64) -> Vec<u64> {
    // keep the unary parts writable
    let (fam, k, b): (&str, u64, u64) = match id {
        Ident::Const(p, i) => (*p, *i as u64, *i as u64),
        Ident::Enum(c) => {
            let (n, p) = enum_name(c);
            (n, p, p)
        }
    };
    let mut s: HashSet<u64> = (0..dense).collect();
    for v in pow2_grid() {
        s.insert(v);
    }
    for _ in 0..8 {
        s.insert(rng.random::<u64>() >> rng.random_range(0..64));
    }
    let unary = |v: u64| -> u64 {
        match fam {
            "UNARY" | "Unary" => v,
            "RICE" | "Rice" => v >> k.min(63),
            "GOLOMB" | "Golomb" => v / b.max(1),
            _ => 0,
        }
    };
    let vb = matches!(fam, "VBYTE_BE" | "VBYTE_LE" | "VByteBe" | "VByteLe");
    // u64::MAX is left to the codes driver: the statistics wrappers, which see every value
    // dispatched here, track codes that cannot represent it
    if vb {
        // every length step of the complete VByte code, +-2
        let mut thr: u128 = 0;
        for i in 1..=9u32 {
            thr += 1u128 << (7 * i);
            for d in -2i128..=2 {
                let x = thr as i128 + d;
                if x >= 0 && x < u64::MAX as i128 {
                    s.insert(x as u64);
                }
            }
        }
    }
    let mut v: Vec<u64> = s.into_iter().filter(|x| *x != u64::MAX && unary(*x) <= 200).collect();
    v.sort();
    v
}

/// a panic inside the library is data: the call is reported with res = "panic"
#[derive(Debug)]
pub struct Panicked;
fn guard_opt<T>(f: impl FnOnce() -> Option<Result<T, std::convert::Infallible>>) -> Option<Result<T, Panicked>> {
    match std::panic::catch_unwind(std::panic::AssertUnwindSafe(f)) {
        Ok(None) => None,
        Ok(Some(Ok(x))) => Some(Ok(x)),
        Ok(Some(Err(_))) => unreachable!(),
        Err(_) => Some(Err(Panicked)),
    }
}

fn res_of<T, E>(r: &Result<T, E>) -> &'static str {
    if r.is_ok() {
        "ok"
    } else {
        "err"
    }
}

fn res_g<T>(r: &Result<T, Panicked>) -> &'static str {
    if r.is_ok() {
        "ok"
    } else {
        "panic"
    }
}

macro_rules! run_e {
    ($E:ty, $ename:expr, $tr:expr, $rng:expr, $idents:expr, $dense:expr, $tests:expr) => {{
        for id in $idents.iter() {
            let vals = values_for(id, $rng, $dense);
            // ---------------- writes
            let write_vias: &[&str] = match id {
                Ident::Const(..) => &["const", "const-static", "stats-const"],
                Ident::Enum(_) => &["enum", "enum-static", "func", "func-get", "stats-enum", "stats-func"],
            };
            let mut image: Vec<u8> = vec![];
            let mut written: Vec<u64> = vec![];
            for (vi, via) in write_vias.iter().enumerate() {
                $tr.reset();
                let log = Rc::new(RefCell::new(Vec::new()));
                let mut w: WB<$E> = BufBitWriter::new(Recording { inner: NullSink::new(), log: log.clone() });
                let wid = $tr.new_id();
                $tr.emit(Ev::new("new_writer").i("o", wid).s("e", $ename).i("w", 64).s("backend", "rec").s("wrap", "none").i("cap", -1).b("checks", cfg!(feature = "checks")).b("has_counter", false));
                let mut all: Vec<u8> = vec![];
                let mut stats_total: u64 = 0;
                let mut n_written: i64 = 0;
                // dispatchers that are built once
                let func = match id {
                    Ident::Enum(c) => FuncCodeWriter::<$E, WB<$E>>::new(*c).ok(),
                    _ => None,
                };
                if let Ident::Enum(c) = id {
                    if *via == "func" {
                        let (n, p) = enum_name(c);
                        $tr.emit(Ev::new("func_new").s("kind", "writer").s("en", n).u64("ep", p).s("res", if func.is_some() { "ok" } else { "err" }));
                    }
                }
                let stats_enum = match id {
                    Ident::Enum(c) => Some(CodesStatsWrapper::<Codes>::new(*c)),
                    _ => None,
                };
                let stats_func = func.clone().map(|f| CodesStatsWrapper::<FuncCodeWriter<$E, WB<$E>>>::new(f));
                for &v in &vals {
                    // the statistics track codes that cannot represent u64::MAX: outside their domain
                    if via.starts_with("stats") && v == u64::MAX {
                        continue;
                    }
                    let r: Option<Result<usize, Panicked>> = guard_opt(|| match (id, *via) {
                        (Ident::Const(p, i), "const") => const_write::<$E>(p, *i, false, &mut w, v),
                        (Ident::Const(p, i), "const-static") => const_write::<$E>(p, *i, true, &mut w, v),
                        (Ident::Const(p, i), "stats-const") => const_stats_write::<$E>(p, *i, &mut w, v).map(|(r, t)| {
                            stats_total = t;
                            r
                        }),
                        (Ident::Enum(c), "enum") => Some(c.write(&mut w, v)),
                        (Ident::Enum(c), "enum-static") => Some(StaticCodeWrite::<$E, WB<$E>>::write(c, &mut w, v)),
                        (Ident::Enum(_), "func") => func.as_ref().map(|f| f.write(&mut w, v)),
                        (Ident::Enum(_), "func-get") => func.as_ref().map(|f| FuncCodeWriter::<$E, WB<$E>>::new_with_func(f.get_func()).write(&mut w, v)),
                        (Ident::Enum(_), "stats-enum") => stats_enum.as_ref().map(|s| DynamicCodeWrite::write(s, &mut w, v)),
                        (Ident::Enum(_), "stats-func") => stats_func.as_ref().map(|s| StaticCodeWrite::<$E, WB<$E>>::write(s, &mut w, v)),
                        _ => None,
                    });
                    let Some(r) = r else { continue };
                    n_written += 1;
                    let nb: Vec<u8> = std::mem::take(&mut *log.borrow_mut());
                    all.extend_from_slice(&nb);
                    let e = ident_fields(Ev::new("dwrite").i("o", wid).s("via", via), id).u64("v", v).s("res", res_g(&r)).bytes("nb", &nb).i("ret", r.map(|x| x as i64).unwrap_or(-1));
                    $tr.emit(e);
                    $tests += 1;
                    if vi == 0 {
                        written.push(v);
                    }
                }
                // the statistics wrappers saw every value exactly once
                if let Some(s) = &stats_enum {
                    if *via == "stats-enum" {
                        $tr.emit(Ev::new("stats_count").i("n", n_written).i("total", s.stats().lock().unwrap().total as i64));
                    }
                }
                if let Some(s) = &stats_func {
                    if *via == "stats-func" {
                        $tr.emit(Ev::new("stats_count").i("n", n_written).i("total", s.stats().lock().unwrap().total as i64));
                    }
                }
                let _ = stats_total;
                let _ = BitWrite::<$E>::flush(&mut w);
                let nb: Vec<u8> = std::mem::take(&mut *log.borrow_mut());
                all.extend_from_slice(&nb);
                if vi == 0 {
                    image = all;
                }
                $tr.emit(Ev::new("drop_writer").i("o", wid));
            }
            if written.is_empty() {
                continue;
            }
            while image.len() % 8 != 0 {
                image.push(0);
            }
            // ---------------- reads of what the first dispatcher wrote
            let read_vias: &[&str] = match id {
                Ident::Const(..) => &["const", "const-static"],
                Ident::Enum(_) => &["enum", "enum-static", "func", "func-get", "factory", "stats-enum", "stats-func"],
            };
            for via in read_vias {
                $tr.reset();
                let words: Vec<u32> = crate::dynio::bytes_to_words(&image);
                let mut r: RB<$E> = BufBitReader::new(MemWordReader::new(words));
                let rid = $tr.new_id();
                $tr.emit(Ev::new("new_reader").i("o", rid).s("e", $ename).i("w", 32).s("kind", "buf").s("backend", "inf").s("wrap", "none").b("strict", false).i("peek", 32).b("has_counter", false).bytes("bytes", &image));
                let func = match id {
                    Ident::Enum(c) => FuncCodeReader::<$E, RB<$E>>::new(*c).ok(),
                    _ => None,
                };
                if let Ident::Enum(c) = id {
                    if *via == "func" {
                        let (n, p) = enum_name(c);
                        $tr.emit(Ev::new("func_new").s("kind", "reader").s("en", n).u64("ep", p).s("res", if func.is_some() { "ok" } else { "err" }));
                    }
                }
                let stats_enum = match id {
                    Ident::Enum(c) => Some(CodesStatsWrapper::<Codes>::new(*c)),
                    _ => None,
                };
                let stats_func = func.clone().map(|f| CodesStatsWrapper::<FuncCodeReader<$E, RB<$E>>>::new(f));
                let fact = match id {
                    Ident::Enum(c) => FactoryFuncCodeReader::<$E, Fact<$E>>::new(*c).ok(),
                    _ => None,
                };
                for _ in 0..written.len() {
                    let rr: Option<Result<u64, Panicked>> = guard_opt(|| match (id, *via) {
                        (Ident::Const(p, i), "const") => const_read::<$E, _>(p, *i, false, &mut r),
                        (Ident::Const(p, i), "const-static") => const_read::<$E, _>(p, *i, true, &mut r),
                        (Ident::Enum(c), "enum") => Some(c.read(&mut r)),
                        (Ident::Enum(c), "enum-static") => Some(StaticCodeRead::<$E, RB<$E>>::read(c, &mut r)),
                        (Ident::Enum(_), "func") => func.as_ref().map(|f| f.read(&mut r)),
                        (Ident::Enum(_), "func-get") => func.as_ref().map(|f| FuncCodeReader::<$E, RB<$E>>::new_with_func(f.get_func()).read(&mut r)),
                        (Ident::Enum(_), "factory") => fact.as_ref().map(|f| f.get().read(&mut r)),
                        (Ident::Enum(_), "stats-enum") => stats_enum.as_ref().map(|s| DynamicCodeRead::read(s, &mut r)),
                        (Ident::Enum(_), "stats-func") => stats_func.as_ref().map(|s| StaticCodeRead::<$E, RB<$E>>::read(s, &mut r)),
                        _ => None,
                    });
                    let Some(rr) = rr else { break };
                    let pos = r.bit_pos().map(|p| p as i64).unwrap_or(-1);
                    let e = ident_fields(Ev::new("dread").i("o", rid).s("via", via), id).s("res", res_g(&rr)).i("pos", pos).u64("v", rr.unwrap_or(0));
                    $tr.emit(e);
                    $tests += 1;
                }
                $tr.emit(Ev::new("drop_reader").i("o", rid));
            }
            // ---------------- the same stream through readers of other kinds (8-, 16-, 64-bit words, unbuffered):
            // a dispatcher must not depend on the reader it is used with
            {
                let w8: Vec<u8> = image.clone();
                let mut r8: BufBitReader<$E, MemWordReader<u8, Vec<u8>>> = BufBitReader::new(MemWordReader::new(w8));
                extra_reads::<$E, _>($tr, $ename, id, &image, &mut r8, 8, "buf", written.len(), &mut $tests);
                let w16: Vec<u16> = crate::dynio::bytes_to_words(&image);
                let mut r16: BufBitReader<$E, MemWordReader<u16, Vec<u16>>> = BufBitReader::new(MemWordReader::new(w16));
                extra_reads::<$E, _>($tr, $ename, id, &image, &mut r16, 16, "buf", written.len(), &mut $tests);
                let w64: Vec<u64> = crate::dynio::bytes_to_words(&image);
                let mut r64: BufBitReader<$E, MemWordReader<u64, Vec<u64>>> = BufBitReader::new(MemWordReader::new(w64.clone()));
                extra_reads::<$E, _>($tr, $ename, id, &image, &mut r64, 64, "buf", written.len(), &mut $tests);
                let mut ru: BitReader<$E, MemWordReader<u64, Vec<u64>>> = BitReader::new(MemWordReader::new(w64));
                extra_reads::<$E, _>($tr, $ename, id, &image, &mut ru, 64, "unbuf", written.len(), &mut $tests);
            }
            // ---------------- lengths
            for &v in &vals {
                match id {
                    Ident::Const(p, i) => {
                        if let Some(l) = const_len(p, *i, v) {
                            $tr.emit(ident_fields(Ev::new("dlen").s("via", "const"), id).u64("v", v).i("ret", l as i64));
                        }
                    }
                    Ident::Enum(c) => {
                        $tr.emit(ident_fields(Ev::new("dlen").s("via", "enum"), id).u64("v", v).i("ret", c.len(v) as i64));
                        if let Ok(f) = FuncCodeLen::new(*c) {
                            $tr.emit(ident_fields(Ev::new("dlen").s("via", "func"), id).u64("v", v).i("ret", f.len(v) as i64));
                        }
                    }
                }
            }
            if let Ident::Enum(c) = id {
                let (n, p) = enum_name(c);
                $tr.emit(Ev::new("func_new").s("kind", "len").s("en", n).u64("ep", p).s("res", if FuncCodeLen::new(*c).is_ok() { "ok" } else { "err" }));
                $tr.emit(Ev::new("func_new").s("kind", "factory").s("en", n).u64("ep", p).s("res", if FactoryFuncCodeReader::<$E, Fact<$E>>::new(*c).is_ok() { "ok" } else { "err" }));
            }
        }
    }};
}

/// reads of `n' values from `image' through const / enum / func dispatchers on an arbitrary reader type
fn extra_reads<E: Endianness, R: CodesRead<E> + BitSeek>(tr: &mut Tr, ename: &str, id: &Ident, image: &[u8], r: &mut R, wbits: usize, kind: &str, n: usize, tests: &mut u64) {
    let vias: &[&str] = match id {
        Ident::Const(..) => &["const", "const-static"],
        Ident::Enum(_) => &["enum", "func"],
    };
    for via in vias {
        tr.reset();
        let rid = tr.new_id();
        tr.emit(Ev::new("new_reader").i("o", rid).s("e", ename).i("w", wbits as i64).s("kind", kind).s("backend", "inf").s("wrap", "none").b("strict", false).i("peek", if kind == "unbuf" { 32 } else { wbits as i64 }).b("has_counter", false).bytes("bytes", image));
        if r.set_bit_pos(0).is_err() {
            return;
        }
        let func = match id {
            Ident::Enum(c) => FuncCodeReader::<E, R>::new(*c).ok(),
            _ => None,
        };
        for _ in 0..n {
            let rr = std::panic::catch_unwind(std::panic::AssertUnwindSafe(|| match (id, *via) {
                (Ident::Const(p, i), "const") => const_read::<E, R>(p, *i, false, r),
                (Ident::Const(p, i), "const-static") => const_read::<E, R>(p, *i, true, r),
                (Ident::Enum(c), "enum") => Some(c.read(r)),
                (Ident::Enum(_), "func") => func.as_ref().map(|f| f.read(r)),
                _ => None,
            }));
            let (res, v) = match rr {
                Ok(None) => break,
                Ok(Some(Ok(v))) => ("ok", v),
                Ok(Some(Err(_))) => ("err", 0),
                Err(_) => ("panic", 0),
            };
            let pos = r.bit_pos().map(|p| p as i64).unwrap_or(-1);
            tr.emit(ident_fields(Ev::new("dread").i("o", rid).s("via", via), id).s("res", res).i("pos", pos).u64("v", v));
            *tests += 1;
            if res != "ok" {
                break;
            }
        }
        tr.emit(Ev::new("drop_reader").i("o", rid));
    }
}

/// a reader factory over a byte image
pub struct Fact<E: Endianness>(Vec<u32>, std::marker::PhantomData<E>);
impl CodesReaderFactory<BE> for Fact<BE> {
    type CodesReader<'a> = RB<BE>;
    fn new_reader(&self) -> RB<BE> {
        BufBitReader::new(MemWordReader::new(self.0.clone()))
    }
}
impl CodesReaderFactory<LE> for Fact<LE> {
    type CodesReader<'a> = RB<LE>;
    fn new_reader(&self) -> RB<LE> {
        BufBitReader::new(MemWordReader::new(self.0.clone()))
    }
}

fn code_ev(e: Ev, pfx: &str, c: &Codes) -> Ev {
    let (n, p) = enum_name(c);
    e.s(&format!("{}n", pfx), n).u64(&format!("{}p", pfx), p)
}

/// C16: names and identifiers
pub fn names(tr: &mut Tr, rng: &mut SmallRng) -> u64 {
    let mut tests = 0;
    tr.reset();
    let mut all: Vec<Codes> = vec![Codes::Unary, Codes::Gamma, Codes::Delta, Codes::Omega, Codes::VByteBe, Codes::VByteLe];
    // 0..=64, every power of two up to 2^20 with its neighbours, and large values
    let mut params: Vec<usize> = (0..=64).chain([1000, 1 << 32, usize::MAX]).collect();
    for i in 7..=20 {
        params.extend([(1usize << i) - 1, 1usize << i, (1usize << i) + 1]);
    }
    for &k in &params {
        all.push(Codes::Zeta { k });
        all.push(Codes::Pi { k });
        all.push(Codes::Golomb { b: k });
        all.push(Codes::ExpGolomb { k });
        all.push(Codes::Rice { log2_b: k });
    }
    // Display -> FromStr
    for c in &all {
        let text = c.to_string();
        let r: Result<Codes, _> = text.parse();
        let mut e = code_ev(Ev::new("text_rt"), "a", c).s("res", res_of(&r));
        if let Ok(c2) = &r {
            e = code_ev(e, "b", c2);
        }
        tr.emit(e);
        tests += 1;
    }
    // malformed and well-formed token records, rendered to text here
    let names = ["Unary", "Gamma", "Delta", "Omega", "VByteBe", "VByteLe", "Zeta", "Pi", "Golomb", "ExpGolomb", "Rice", "", "Foo", "gamma", "ZETA", "Zet", "Ricee", " Gamma"];
    let pkinds = ["none", "empty", "nat", "neg", "alpha", "overflow"];
    for name in names {
        for paren in [false, true] {
            for pk in pkinds {
                if !paren && pk != "none" {
                    continue;
                }
                if paren && pk == "none" {
                    continue;
                }
                // parameters that do not fit: just above usize::MAX (2^64 .. 2^64 + 3), twice that, 2^128, twenty nines
                let overflows = ["18446744073709551616", "18446744073709551617", "18446744073709551619", "36893488147419103232", "340282366920938463463374607431768211456", "99999999999999999999"];
                let reps = if pk == "overflow" { overflows.len() } else { 1 };
                for rep in 0..reps {
                for (trailing, close) in [(false, true), (true, true), (false, false), (true, false)] {
                    if !paren && !close {
                        continue;
                    }
                    let pv: u64 = rng.random_range(0..70);
                    let ptext = match pk {
                        "empty" => String::new(),
                        "nat" => pv.to_string(),
                        "neg" => format!("-{}", pv + 1),
                        "alpha" => ["x", "3x", "k=3", "0x10", " 5"][rng.random_range(0..5)].to_string(),
                        "overflow" => overflows[rep].to_string(),
                        _ => String::new(),
                    };
                    let mut text = name.to_string();
                    if paren {
                        text.push('(');
                        text.push_str(&ptext);
                        if close {
                            text.push(')');
                        }
                    }
                    if trailing {
                        text.push_str(["junk", ")", " "][rng.random_range(0..3)]);
                    }
                    let r: Result<Codes, _> = text.parse();
                    let mut e = Ev::new("parse").s("name", name).b("paren", paren).s("pkind", pk).u64("pval", pv).b("trailing", trailing).b("close", close).s("res", res_of(&r));
                    if let Ok(c2) = &r {
                        e = code_ev(e, "b", c2);
                    }
                    tr.emit(e);
                    tests += 1;
                }
                }
            }
        }
    }
    // code -> identifier -> code
    for c in &all {
        let r = c.to_code_const();
        let mut e = code_ev(Ev::new("const_rt"), "a", c).s("res", res_of(&r));
        if let Ok(id) = &r {
            let r2 = Codes::from_code_const(*id);
            e = e.s("res2", res_of(&r2));
            if let Ok(c2) = &r2 {
                e = code_ev(e, "b", c2);
            }
        }
        tr.emit(e);
        tests += 1;
    }
    // identifier -> code -> identifier, by name; and identifiers outside the constants
    for (p, i, val) in CONST_NAMES {
        let r = Codes::from_code_const(*val);
        let mut e = Ev::new("id_rt").s("cn", p).i("ci", *i as i64).s("res", res_of(&r));
        if let Ok(c) = &r {
            e = code_ev(e, "b", c);
            let back = c.to_code_const();
            e = e.b("same_id", back.as_ref().map(|x| *x == *val).unwrap_or(false));
        }
        tr.emit(e);
        tests += 1;
    }
    let maxid = CONST_NAMES.iter().map(|x| x.2).max().unwrap();
    for bad in [maxid + 1, maxid + 2, 1000, usize::MAX] {
        let r = Codes::from_code_const(bad);
        tr.emit(Ev::new("id_bad").s("res", res_of(&r)));
        tests += 1;
    }
    // equality implies identical codewords
    let small: Vec<Codes> = all.iter().filter(|c| enum_name(c).1 <= 10).cloned().collect();
    for a in &small {
        for b in &small {
            let eq = a == b;
            tr.emit(code_ev(code_ev(Ev::new("code_eq"), "a", a), "b", b).b("eq", eq));
            tests += 1;
        }
    }
    tests
}

pub fn run(tr: &mut Tr, seed: u64, dense: u64, shard: usize, nshards: usize) -> (u64, u64) {
    let mut rng = SmallRng::seed_from_u64(seed ^ 0x4453);
    let mut idents: Vec<Ident> = CONST_NAMES.iter().map(|(p, i, _)| Ident::Const(p, *i)).collect();
    idents.extend(all_enums().into_iter().map(Ident::Enum));
    let n_all = idents.len();
    let idents: Vec<Ident> = idents.into_iter().enumerate().filter(|(i, _)| i % nshards == shard).map(|(_, x)| x).collect();
    let mut tests = 0u64;
    run_e!(BE, "be", tr, &mut rng, idents, dense, tests);
    run_e!(LE, "le", tr, &mut rng, idents, dense, tests);
    if shard == 0 {
        tests += names(tr, &mut rng);
    }
    (tests, (n_all / nshards.max(1)) as u64 * 2 * 9)
}
