//! Input generation: value grids, random codes and values inside each code's domain.

use crate::dynio::*;
use rand::rngs::SmallRng;
use rand::Rng;

/// {2^i - 1, 2^i, 2^i + 1 : i <= 63} plus maxima
pub fn pow2_grid() -> Vec<u64> {
    let mut v = vec![];
    for i in 0..64u32 {
        let p = 1u64 << i;
        v.push(p - 1);
        v.push(p);
        v.push(p.wrapping_add(1));
    }
    v.push(u64::MAX - 1);
    v.push(u64::MAX);
    v.sort();
    v.dedup();
    v
}

pub fn rand_value(rng: &mut SmallRng) -> u64 {
    match rng.random_range(0..10) {
        0..=2 => rng.random_range(0..16),
        3..=4 => rng.random_range(0..1024),
        5 => rng.random_range(0..(1 << 16)),
        6 => {
            let i = rng.random_range(0..64);
            let p = 1u64 << i;
            match rng.random_range(0..3) {
                0 => p - 1,
                1 => p,
                _ => p.wrapping_add(1),
            }
        }
        7 => u64::MAX - rng.random_range(1..4),
        _ => {
            let bits = rng.random_range(1..=64);
            rng.random::<u64>() >> (64 - bits)
        }
    }
}

/// a value of at most `bits` significant bits
pub fn rand_value_bits(rng: &mut SmallRng, bits: u32) -> u64 {
    if bits == 0 {
        return 0;
    }
    let b = rng.random_range(1..=bits.min(64));
    let v = rng.random::<u64>() >> (64 - b);
    v
}

pub fn bitlen(v: u64) -> u32 {
    64 - v.leading_zeros()
}

/// A random code with a value in its domain whose codeword stays below
/// `max_unary` + O(130) bits.
pub fn rand_code_value(rng: &mut SmallRng, max_unary: u64) -> (CodeSpec, u64) {
    let f = match rng.random_range(0..12) {
        0 => Fam::Unary,
        1 => Fam::Gamma,
        2 => Fam::Delta,
        3 => Fam::Omega,
        4 => Fam::Zeta,
        5 => Fam::Pi,
        6 => Fam::Rice,
        7 => Fam::ExpGolomb,
        8 => Fam::Golomb,
        9 => Fam::MinBin,
        10 => Fam::VByteBe,
        _ => Fam::VByteLe,
    };
    let univ = |rng: &mut SmallRng| {
        let v = rand_value(rng);
        if v == u64::MAX {
            u64::MAX - 1
        } else {
            v
        }
    };
    match f {
        Fam::Unary => (CodeSpec::simple(f), rng.random_range(0..=max_unary)),
        Fam::Gamma | Fam::Delta | Fam::Omega => (CodeSpec::simple(f), univ(rng)),
        Fam::VByteBe | Fam::VByteLe => (CodeSpec::simple(f), rand_value(rng)),
        Fam::Zeta => {
            let k = if rng.random_bool(0.6) { rng.random_range(1..=8) } else { rng.random_range(1..=63) };
            (CodeSpec::k(f, k), univ(rng))
        }
        Fam::Pi => {
            let k = if rng.random_bool(0.7) { rng.random_range(0..=6) } else { rng.random_range(0..=63) };
            (CodeSpec::k(f, k), univ(rng))
        }
        Fam::ExpGolomb => {
            let k = if rng.random_bool(0.6) { rng.random_range(0..=8) } else { rng.random_range(0..=63) };
            (CodeSpec::k(f, k), univ(rng))
        }
        Fam::Rice => {
            let k = if rng.random_bool(0.6) { rng.random_range(0..=8) } else { rng.random_range(0..=63) };
            // quotient v >> k bounded
            let q = rng.random_range(0..=max_unary.min(64));
            let low = if k == 0 { 0 } else { rng.random::<u64>() >> (64 - k as u32) };
            let hi_room = 64 - k as u32;
            let q = if hi_room >= 64 { q } else { q.min((1u64 << hi_room) - 1) };
            let mut v = if k == 0 { q } else { (q << k) | low };
            if v == u64::MAX {
                v -= 1;
            }
            (CodeSpec::k(f, k), v)
        }
        Fam::Golomb => {
            let b = match rng.random_range(0..4) {
                0 => rng.random_range(1..=16),
                1 => rng.random_range(1..=1000),
                2 => {
                    let i = rng.random_range(1..64);
                    ((1u64 << i) as i128 + rng.random_range(-1..=1) as i128).max(1) as u64
                }
                _ => rng.random::<u64>().max(1),
            };
            let q = rng.random_range(0..=max_unary.min(64)) as u128;
            let r = rng.random_range(0..b) as u128;
            let mut v = (q * b as u128 + r).min(u64::MAX as u128 - 1) as u64;
            if v / b > max_unary {
                v = r as u64;
            }
            (CodeSpec::b(f, b), v)
        }
        Fam::MinBin => {
            let u = match rng.random_range(0..4) {
                0 => rng.random_range(1..=16),
                1 => rng.random_range(1..=1000),
                2 => {
                    let i = rng.random_range(1..64);
                    ((1u64 << i) as i128 + rng.random_range(-1..=1) as i128).max(1) as u64
                }
                _ => rng.random::<u64>().max(1),
            };
            (CodeSpec::b(f, u), rng.random_range(0..u))
        }
    }
}

/// byte images with different characters
pub fn rand_image(rng: &mut SmallRng, nbytes: usize) -> Vec<u8> {
    let mut v = vec![0u8; nbytes];
    match rng.random_range(0..6) {
        0 => {
            for b in v.iter_mut() {
                *b = rng.random();
            }
        }
        1 => {
            for b in v.iter_mut() {
                *b = 0xFF;
            }
        }
        2 => {
            // all zeros with a few ones
            for _ in 0..(nbytes / 8).max(1) {
                let i = rng.random_range(0..nbytes);
                v[i] |= 1 << rng.random_range(0..8);
            }
        }
        3 => {
            // sparse ones
            for b in v.iter_mut() {
                if rng.random_bool(0.3) {
                    *b = 1 << rng.random_range(0..8);
                }
            }
        }
        4 => {
            // long zero runs then dense parts
            let mut i = 0;
            while i < nbytes {
                let run = rng.random_range(1..12);
                if rng.random_bool(0.5) {
                    for j in i..(i + run).min(nbytes) {
                        v[j] = rng.random();
                    }
                }
                i += run;
            }
        }
        _ => {
            for (i, b) in v.iter_mut().enumerate() {
                *b = if i % 2 == 0 { 0xA5 } else { 0x5A };
            }
        }
    }
    // guarantee a final one so unary reads terminate on zero-extended readers
    if let Some(last) = v.last_mut() {
        *last |= 0x81;
    }
    v
}
