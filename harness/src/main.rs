mod drivers;
mod dynio;
mod exec;
mod factory;
mod gen;
mod session;
mod trace;

use std::collections::HashMap;

fn main() {
    let args: Vec<String> = std::env::args().collect();
    if args.len() < 3 {
        eprintln!("usage: vh record <driver> --out FILE [--seed N] [--k v ...]");
        std::process::exit(2);
    }
    // library panics are data; keep stderr quiet
    if std::env::var("VH_PANICS").is_err() {
        std::panic::set_hook(Box::new(|_| {}));
    }
    trace::start_watchdog(std::env::var("VH_WATCHDOG").ok().and_then(|s| s.parse().ok()).unwrap_or(30));
    let mut opts: HashMap<String, String> = HashMap::new();
    let mut i = 3;
    while i + 1 < args.len() {
        opts.insert(args[i].trim_start_matches("--").to_string(), args[i + 1].clone());
        i += 2;
    }
    let get = |k: &str, d: u64| -> u64 { opts.get(k).map(|s| s.parse().unwrap()).unwrap_or(d) };
    match args[1].as_str() {
        "record" => {
            let out = opts.get("out").expect("--out");
            let mut tr = trace::Tr::create(out);
            let seed = get("seed", 1);
            let mut extra = String::new();
            match args[2].as_str() {
                "hist" => drivers::hist::run(&mut tr, seed, get("histories", 10) as usize, get("len", 60) as usize),
                "codes" => {
                    let (tests, distinct) = drivers::codes::run(
                        &mut tr,
                        seed,
                        opts.get("mode").map(|s| s.as_str()).unwrap_or("alone"),
                        get("full", 0) != 0,
                        get("shard", 0) as usize,
                        get("nshards", 1) as usize,
                    );
                    extra = format!(",\"tests\":{},\"distinct\":{}", tests, distinct);
                }
                "tables" => {
                    let (tests, distinct) = drivers::tables::run(
                        &mut tr,
                        seed,
                        get("full", 0) != 0,
                        get("shard", 0) as usize,
                        get("nshards", 1) as usize,
                        get("frac", 1) as usize,
                    );
                    extra = format!(",\"tests\":{},\"distinct\":{}", tests, distinct);
                }
                "crossing" => {
                    let (tests, distinct) = drivers::eof::crossing(&mut tr, seed, get("shard", 0) as usize, get("nshards", 1) as usize, get("vbyte", 0) != 0);
                    extra = format!(",\"tests\":{},\"distinct\":{}", tests, distinct);
                }
                "eof" => {
                    let (tests, distinct) = drivers::eof::run(
                        &mut tr,
                        seed,
                        get("streams", 2) as usize,
                        get("len", 30) as usize,
                        get("shard", 0) as usize,
                        get("nshards", 1) as usize,
                        get("cutstep", 1) as usize,
                    );
                    extra = format!(",\"tests\":{},\"distinct\":{}", tests, distinct);
                }
                "copy" => {
                    let (tests, distinct) = drivers::copy::run(
                        &mut tr,
                        seed,
                        opts.get("rpaths").expect("--rpaths"),
                        opts.get("wpaths").expect("--wpaths"),
                        get("full", 0) != 0,
                        get("shard", 0) as usize,
                        get("nshards", 1) as usize,
                    );
                    extra = format!(",\"tests\":{},\"distinct\":{}", tests, distinct);
                }
                "wrappers" => {
                    let (tests, distinct) = drivers::wrappers::run(&mut tr, seed, get("histories", 10) as usize, get("len", 40) as usize);
                    extra = format!(",\"tests\":{},\"distinct\":{}", tests, distinct);
                }
                "dirty" => {
                    let (tests, distinct) = drivers::dirty::run(&mut tr, seed);
                    extra = format!(",\"tests\":{},\"distinct\":{}", tests, distinct);
                }
                "wordbackend" => {
                    let (tests, distinct) = drivers::wordbackend::run(&mut tr, seed, opts.get("paths").expect("--paths"), get("seqlen", 3) as usize, get("randlen", 2000) as usize);
                    extra = format!(",\"tests\":{},\"distinct\":{}", tests, distinct);
                }
                "adapter" => {
                    let (tests, distinct) = drivers::adapter::run(&mut tr, seed, get("depth", 3) as usize, get("nrand", 200) as usize);
                    extra = format!(",\"tests\":{},\"distinct\":{}", tests, distinct);
                }
                "dispatch" => {
                    let (tests, distinct) = drivers::dispatch::run(&mut tr, seed, get("dense", 64), get("shard", 0) as usize, get("nshards", 1) as usize);
                    extra = format!(",\"tests\":{},\"distinct\":{}", tests, distinct);
                }
                "names" => {
                    let mut rng = <rand::rngs::SmallRng as rand::SeedableRng>::seed_from_u64(seed);
                    let tests = drivers::dispatch::names(&mut tr, &mut rng);
                    extra = format!(",\"tests\":{},\"distinct\":{}", tests, tests);
                }
                "zigzag" => {
                    let (tests, distinct) = drivers::pure::zigzag(&mut tr, seed, get("near", 8) as u32, get("pow", 5) as u32, get("part", 0) as usize);
                    extra = format!(",\"tests\":{},\"distinct\":{}", tests, distinct);
                }
                "zigzag32" => {
                    let (tests, distinct) = drivers::pure::zigzag_sweep32(&mut tr);
                    extra = format!(",\"tests\":{},\"distinct\":{}", tests, distinct);
                }
                "vbyteio" => {
                    let (tests, distinct) = drivers::pure::vbyteio(&mut tr, seed, get("dense", 12) as u32, get("maxlen", 2) as usize, get("sample", 2000) as usize);
                    extra = format!(",\"tests\":{},\"distinct\":{}", tests, distinct);
                }
                "changepoints" => {
                    let (tests, distinct) = drivers::pure::changepoints(&mut tr, seed, get("full", 0) != 0, get("upto", 16) as u32);
                    extra = format!(",\"tests\":{},\"distinct\":{}", tests, distinct);
                }
                "stats" => {
                    let (tests, distinct) = drivers::stats::run(&mut tr, seed, get("rounds", 10) as usize, get("threads", 3) as usize);
                    extra = format!(",\"tests\":{},\"distinct\":{}", tests, distinct);
                }
                "wfull" => {
                    let (tests, distinct) = drivers::wstates::wfull(&mut tr, seed, get("rounds", 10) as usize);
                    extra = format!(",\"tests\":{},\"distinct\":{}", tests, distinct);
                }
                "wstates" => {
                    let (tests, distinct) = drivers::wstates::run(
                        &mut tr,
                        seed,
                        opts.get("paths").expect("--paths"),
                        opts.get("ops").map(|s| s.as_str()).unwrap_or("c01"),
                        get("full", 0) != 0,
                        get("shard", 0) as usize,
                        get("nshards", 1) as usize,
                    );
                    extra = format!(",\"tests\":{},\"distinct\":{}", tests, distinct);
                }
                "rstates" => {
                    let (tests, distinct) = drivers::rstates::run(
                        &mut tr,
                        seed,
                        opts.get("paths").expect("--paths"),
                        opts.get("ops").map(|s| s.as_str()).unwrap_or("c02"),
                        get("full", 0) != 0,
                        get("shard", 0) as usize,
                        get("nshards", 1) as usize,
                        get("images", 2) as usize,
                    );
                    extra = format!(",\"tests\":{},\"distinct\":{}", tests, distinct);
                }
                d => {
                    eprintln!("unknown driver {}", d);
                    std::process::exit(2);
                }
            }
            let n = tr.finish();
            println!("{{\"events\":{}{}}}", n, extra);
        }
        "exec" => {
            // vh exec <schedule> --out FILE
            let out = opts.get("out").expect("--out");
            let mut tr = trace::Tr::create(out);
            exec::run(&mut tr, &args[2]);
            let n = tr.finish();
            println!("{{\"events\":{}}}", n);
        }
        c => {
            eprintln!("unknown command {}", c);
            std::process::exit(2);
        }
    }
}
