mod drivers;
mod dynio;
mod exec;
mod factory;
mod gen;
mod session;
mod trace;

use std::collections::HashMap;

fn main() {
    let args: Vec<String> = std::env::args().collect();
    if args.len() < 3 {
        eprintln!("usage: vh record <driver> --out FILE [--seed N] [--k v ...]");
        std::process::exit(2);
    }
    // library panics are data; keep stderr quiet
    std::panic::set_hook(Box::new(|_| {}));
    let mut opts: HashMap<String, String> = HashMap::new();
    let mut i = 3;
    while i + 1 < args.len() {
        opts.insert(args[i].trim_start_matches("--").to_string(), args[i + 1].clone());
        i += 2;
    }
    let get = |k: &str, d: u64| -> u64 { opts.get(k).map(|s| s.parse().unwrap()).unwrap_or(d) };
    match args[1].as_str() {
        "record" => {
            let out = opts.get("out").expect("--out");
            let mut tr = trace::Tr::create(out);
            let seed = get("seed", 1);
            match args[2].as_str() {
                "hist" => drivers::hist::run(&mut tr, seed, get("histories", 10) as usize, get("len", 60) as usize),
                d => {
                    eprintln!("unknown driver {}", d);
                    std::process::exit(2);
                }
            }
            let n = tr.finish();
            println!("{{\"events\":{}}}", n);
        }
        "exec" => {
            // vh exec <schedule> --out FILE
            let out = opts.get("out").expect("--out");
            let mut tr = trace::Tr::create(out);
            exec::run(&mut tr, &args[2]);
            let n = tr.finish();
            println!("{{\"events\":{}}}", n);
        }
        c => {
            eprintln!("unknown command {}", c);
            std::process::exit(2);
        }
    }
}
