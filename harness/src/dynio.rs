//! Object-safe views of the library's bit readers and writers, so that
//! drivers are written once and run on every configuration
//! (endianness x word size x backend kind x reader kind).
//!
//! Nothing here computes an expected result: these wrappers only call the
//! library and report what it did (value / Err / panic).

use common_traits::*;
use dsi_bitstream::prelude::*;
use std::cell::RefCell;
use std::marker::PhantomData;
use std::panic::{catch_unwind, AssertUnwindSafe};
use std::rc::Rc;

#[derive(Debug, Clone, PartialEq)]
pub enum Out<T> {
    Ok(T),
    Err,
    Panic,
}

impl<T> Out<T> {
    pub fn tag(&self) -> &'static str {
        match self {
            Out::Ok(_) => "ok",
            Out::Err => "err",
            Out::Panic => "panic",
        }
    }
    pub fn is_ok(&self) -> bool {
        matches!(self, Out::Ok(_))
    }
    pub fn ok(self) -> Option<T> {
        match self {
            Out::Ok(x) => Some(x),
            _ => None,
        }
    }
}

pub fn guard<T, Er>(f: impl FnOnce() -> Result<T, Er>) -> Out<T> {
    match catch_unwind(AssertUnwindSafe(f)) {
        Ok(Ok(x)) => Out::Ok(x),
        Ok(Err(_)) => Out::Err,
        Err(_) => Out::Panic,
    }
}

/// like guard, for the bulk copies: also reports which side a CopyError blames
pub fn copy_guard<RE, WE>(f: impl FnOnce() -> Result<(), CopyError<RE, WE>>) -> (Out<()>, &'static str)
where
    RE: std::error::Error + Send + Sync + 'static,
    WE: std::error::Error + Send + Sync + 'static,
{
    match catch_unwind(AssertUnwindSafe(f)) {
        Ok(Ok(())) => (Out::Ok(()), ""),
        Ok(Err(CopyError::ReadError(_))) => (Out::Err, "read"),
        Ok(Err(CopyError::WriteError(_))) => (Out::Err, "write"),
        Err(_) => (Out::Panic, ""),
    }
}

#[derive(Clone, Copy, Debug, PartialEq, Eq, Hash)]
pub enum Fam {
    Unary,
    Gamma,
    Delta,
    Omega,
    Zeta,
    Pi,
    Rice,
    ExpGolomb,
    Golomb,
    MinBin,
    VByteBe,
    VByteLe,
}

impl Fam {
    pub fn name(self) -> &'static str {
        match self {
            Fam::Unary => "unary",
            Fam::Gamma => "gamma",
            Fam::Delta => "delta",
            Fam::Omega => "omega",
            Fam::Zeta => "zeta",
            Fam::Pi => "pi",
            Fam::Rice => "rice",
            Fam::ExpGolomb => "exp_golomb",
            Fam::Golomb => "golomb",
            Fam::MinBin => "minimal_binary",
            Fam::VByteBe => "vbyte_be",
            Fam::VByteLe => "vbyte_le",
        }
    }
    pub fn from_name(s: &str) -> Option<Fam> {
        Some(match s {
            "unary" => Fam::Unary,
            "gamma" => Fam::Gamma,
            "delta" => Fam::Delta,
            "omega" => Fam::Omega,
            "zeta" => Fam::Zeta,
            "pi" => Fam::Pi,
            "rice" => Fam::Rice,
            "exp_golomb" => Fam::ExpGolomb,
            "golomb" => Fam::Golomb,
            "minimal_binary" => Fam::MinBin,
            "vbyte_be" => Fam::VByteBe,
            "vbyte_le" => Fam::VByteLe,
            _ => return None,
        })
    }
}

/// A code: family, small parameter k, 64-bit parameter b (Golomb modulus /
/// minimal-binary bound).
#[derive(Clone, Copy, Debug, PartialEq, Eq, Hash)]
pub struct CodeSpec {
    pub f: Fam,
    pub k: usize,
    pub b: u64,
}

impl CodeSpec {
    pub fn new(f: Fam, k: usize, b: u64) -> Self {
        CodeSpec { f, k, b }
    }
    pub fn simple(f: Fam) -> Self {
        CodeSpec { f, k: 0, b: 0 }
    }
    pub fn k(f: Fam, k: usize) -> Self {
        CodeSpec { f, k, b: 0 }
    }
    pub fn b(f: Fam, b: u64) -> Self {
        CodeSpec { f, k: 0, b }
    }
}

/// Option word for code calls: bit 0 = first table flag (gamma table, delta
/// table, zeta3 table), bit 1 = gamma table inside delta, bit 2 = for zeta
/// with k = 3 use the general zeta(k) entry point rather than zeta3.
/// OPT_DEFAULT = parameterless trait method (read_gamma, write_delta, ...).
pub const OPT_DEFAULT: u8 = 255;
/// OPT_ENUM = through the dynamic dispatch of the `Codes` enumeration (Codes::write / Codes::read)
pub const OPT_ENUM: u8 = 254;

pub fn codes_enum_of(c: &CodeSpec) -> Option<Codes> {
    Some(match c.f {
        Fam::Unary => Codes::Unary,
        Fam::Gamma => Codes::Gamma,
        Fam::Delta => Codes::Delta,
        Fam::Omega => Codes::Omega,
        Fam::VByteBe => Codes::VByteBe,
        Fam::VByteLe => Codes::VByteLe,
        Fam::Zeta => Codes::Zeta { k: c.k },
        Fam::Pi => Codes::Pi { k: c.k },
        Fam::Rice => Codes::Rice { log2_b: c.k },
        Fam::ExpGolomb => Codes::ExpGolomb { k: c.k },
        Fam::Golomb => Codes::Golomb { b: c.b as usize },
        Fam::MinBin => return None,
    })
}

pub trait DynWriter {
    fn write_bits(&mut self, v: u64, n: usize) -> Out<usize>;
    fn write_unary(&mut self, x: u64) -> Out<usize>;
    fn write_code(&mut self, c: &CodeSpec, opt: u8, v: u64) -> Out<usize>;
    /// std::io::Write::write, if the type has that view
    fn write_bytes(&mut self, bs: &[u8]) -> Option<Out<usize>>;
    fn flush(&mut self) -> Out<usize>;
    /// bytes (memory image of the words) the backend received since the last call
    fn take_new_bytes(&mut self) -> Vec<u8>;
    /// close the writer: "flush" (flush then drop), "drop", "into_inner"
    fn close(&mut self, how: &str) -> Out<()>;
    /// the whole storage of the real backend, as bytes
    fn image(&self) -> Vec<u8>;
    /// counting wrappers: bits_written
    fn counter(&self) -> Option<u64>;
    /// optimised or default copy_from, from any reader of the same endianness
    fn copy_from(&mut self, r: &mut dyn DynReader, n: u64) -> (Out<()>, &'static str);
    fn is_le(&self) -> bool;
    /// abandon the writer without running its destructor (which flushes and unwraps):
    /// used for writers whose backend has already failed
    fn forget(&mut self);
}

pub trait DynReader {
    fn read_bits(&mut self, n: usize) -> Out<u64>;
    fn peek_bits(&mut self, n: usize) -> Out<u64>;
    fn skip_bits(&mut self, n: usize) -> Out<()>;
    fn skip_bits_after_peek(&mut self, n: usize) -> Out<()>;
    fn read_unary(&mut self) -> Out<u64>;
    fn read_code(&mut self, c: &CodeSpec, opt: u8) -> Out<u64>;
    fn read_bytes(&mut self, k: usize) -> Option<Out<(usize, Vec<u8>)>>;
    fn bit_pos(&mut self) -> Option<Out<u64>>;
    fn set_bit_pos(&mut self, p: u64) -> Option<Out<()>>;
    fn try_clone(&self) -> Option<Box<dyn DynReader>>;
    fn counter(&self) -> Option<u64>;
    /// result and, on error, which side failed ("read" | "write")
    fn copy_to(&mut self, w: &mut dyn DynWriter, n: u64) -> (Out<()>, &'static str);
    fn is_le(&self) -> bool;
}

// ---------------------------------------------------------------------
// bridges: let a library copy routine talk to a dyn object on the other side

#[derive(Debug)]
pub struct BridgeErr;
impl std::fmt::Display for BridgeErr {
    fn fmt(&self, f: &mut std::fmt::Formatter<'_>) -> std::fmt::Result {
        write!(f, "bridge error")
    }
}
impl std::error::Error for BridgeErr {}

pub struct WBridge<'a, E>(pub &'a mut dyn DynWriter, PhantomData<E>);
impl<E: Endianness> BitWrite<E> for WBridge<'_, E> {
    type Error = BridgeErr;
    fn write_bits(&mut self, value: u64, n: usize) -> Result<usize, BridgeErr> {
        match self.0.write_bits(value, n) {
            Out::Ok(k) => Ok(k),
            Out::Err => Err(BridgeErr),
            Out::Panic => panic!("writer panicked"),
        }
    }
    fn write_unary(&mut self, value: u64) -> Result<usize, BridgeErr> {
        match self.0.write_unary(value) {
            Out::Ok(k) => Ok(k),
            Out::Err => Err(BridgeErr),
            Out::Panic => panic!("writer panicked"),
        }
    }
    fn flush(&mut self) -> Result<usize, BridgeErr> {
        match self.0.flush() {
            Out::Ok(k) => Ok(k),
            Out::Err => Err(BridgeErr),
            Out::Panic => panic!("writer panicked"),
        }
    }
}

pub struct RBridge<'a, E>(pub &'a mut dyn DynReader, PhantomData<E>);
impl<E: Endianness> BitRead<E> for RBridge<'_, E> {
    type Error = BridgeErr;
    type PeekWord = u64;
    fn read_bits(&mut self, n: usize) -> Result<u64, BridgeErr> {
        match self.0.read_bits(n) {
            Out::Ok(k) => Ok(k),
            Out::Err => Err(BridgeErr),
            Out::Panic => panic!("reader panicked"),
        }
    }
    fn peek_bits(&mut self, n: usize) -> Result<u64, BridgeErr> {
        match self.0.peek_bits(n) {
            Out::Ok(k) => Ok(k),
            Out::Err => Err(BridgeErr),
            Out::Panic => panic!("reader panicked"),
        }
    }
    fn skip_bits(&mut self, n: usize) -> Result<(), BridgeErr> {
        match self.0.skip_bits(n) {
            Out::Ok(k) => Ok(k),
            Out::Err => Err(BridgeErr),
            Out::Panic => panic!("reader panicked"),
        }
    }
    fn skip_bits_after_peek(&mut self, n: usize) {
        let _ = self.0.skip_bits_after_peek(n);
    }
    fn read_unary(&mut self) -> Result<u64, BridgeErr> {
        match self.0.read_unary() {
            Out::Ok(k) => Ok(k),
            Out::Err => Err(BridgeErr),
            Out::Panic => panic!("reader panicked"),
        }
    }
}

// ---------------------------------------------------------------------
// recording word backend

pub type Log = Rc<RefCell<Vec<u8>>>;

pub struct Recording<B: WordWrite> {
    pub inner: B,
    pub log: Log,
}

impl<B: WordWrite> WordWrite for Recording<B> {
    type Error = B::Error;
    type Word = B::Word;
    fn write_word(&mut self, word: B::Word) -> Result<(), B::Error> {
        self.inner.write_word(word)?;
        // (an operation of the code under test that delivers megabytes is a runaway: it is reported as such by
        // the session and the rest of its output is not kept)
        let mut log = self.log.borrow_mut();
        if log.len() < RUNAWAY_BYTES + 64 {
            log.extend_from_slice(word.to_ne_bytes().as_ref());
        }
        Ok(())
    }
    fn flush(&mut self) -> Result<(), B::Error> {
        BACKEND_FLUSHES.with(|c| c.set(c.get() + 1));
        self.inner.flush()
    }
}

/// no single operation of any driver legitimately delivers this many bytes
pub const RUNAWAY_BYTES: usize = 1 << 20;

thread_local! {
    /// number of flush() calls that reached a recording backend (on this thread)
    pub static BACKEND_FLUSHES: std::cell::Cell<u64> = const { std::cell::Cell::new(0) };
}
pub fn backend_flushes() -> u64 {
    BACKEND_FLUSHES.with(|c| c.get())
}

/// A word sink that keeps nothing but what the recorder logs ("recording backend").
pub struct NullSink<W>(PhantomData<W>);
impl<W> NullSink<W> {
    pub fn new() -> Self {
        NullSink(PhantomData)
    }
}
impl<W: Word> WordWrite for NullSink<W> {
    type Error = std::convert::Infallible;
    type Word = W;
    fn write_word(&mut self, _word: W) -> Result<(), Self::Error> {
        Ok(())
    }
    fn flush(&mut self) -> Result<(), Self::Error> {
        Ok(())
    }
}

/// Storage shared between a library backend and the harness (single-threaded,
/// the harness only looks while the library is not running).
pub struct PtrVec<W>(pub *mut Vec<W>);
impl<W> AsMut<Vec<W>> for PtrVec<W> {
    fn as_mut(&mut self) -> &mut Vec<W> {
        unsafe { &mut *self.0 }
    }
}
impl<W> AsRef<Vec<W>> for PtrVec<W> {
    fn as_ref(&self) -> &Vec<W> {
        unsafe { &*self.0 }
    }
}
pub struct PtrSlice<W>(pub *mut Vec<W>);
impl<W> AsMut<[W]> for PtrSlice<W> {
    fn as_mut(&mut self) -> &mut [W] {
        unsafe { (&mut *self.0).as_mut_slice() }
    }
}
impl<W> AsRef<[W]> for PtrSlice<W> {
    fn as_ref(&self) -> &[W] {
        unsafe { (&*self.0).as_slice() }
    }
}

/// the byte sink under the word adapter: like a pipe or a socket it takes only part of what it is
/// offered (1..=5 bytes per call, by turns), which std::io::Write allows
pub struct SharedSink(pub Log);
impl std::io::Write for SharedSink {
    fn write(&mut self, buf: &[u8]) -> std::io::Result<usize> {
        let mut log = self.0.borrow_mut();
        let k = std::cmp::min(buf.len(), 1 + log.len() % 5);
        log.extend_from_slice(&buf[..k]);
        Ok(k)
    }
    fn flush(&mut self) -> std::io::Result<()> {
        Ok(())
    }
}

pub fn words_to_bytes<W: Word>(v: &[W]) -> Vec<u8> {
    let mut out = Vec::with_capacity(v.len() * W::BYTES);
    for w in v {
        out.extend_from_slice(w.to_ne_bytes().as_ref());
    }
    out
}

pub fn bytes_to_words<W: Word>(b: &[u8]) -> Vec<W> {
    assert!(b.len() % W::BYTES == 0);
    b.chunks_exact(W::BYTES)
        .map(|c| {
            let mut x: W::Bytes = Default::default();
            x.as_mut().copy_from_slice(c);
            W::from_ne_bytes(x)
        })
        .collect()
}

// ---------------------------------------------------------------------
// writers

pub trait AllWrite<E: Endianness>:
    CodesWrite<E> + GammaWriteParam<E> + DeltaWriteParam<E> + ZetaWriteParam<E>
{
}
impl<E: Endianness, T> AllWrite<E> for T where
    T: CodesWrite<E> + GammaWriteParam<E> + DeltaWriteParam<E> + ZetaWriteParam<E>
{
}

pub struct WrObj<E: Endianness, BW: AllWrite<E>> {
    pub w: Option<BW>,
    pub log: Log,
    pub image: Box<dyn Fn() -> Vec<u8>>,
    pub into_inner: Option<fn(BW) -> bool>,
    pub iow: Option<fn(&mut BW, &[u8]) -> std::io::Result<usize>>,
    pub counter: Option<fn(&BW) -> u64>,
    pub _e: PhantomData<E>,
}

fn do_write_code<E: Endianness, BW: AllWrite<E>>(
    w: &mut BW,
    c: &CodeSpec,
    opt: u8,
    v: u64,
) -> Result<usize, BW::Error> {
    if opt == OPT_ENUM {
        if let Some(e) = codes_enum_of(c) {
            return DynamicCodeWrite::write(&e, w, v);
        }
    }
    let t0 = opt & 1 != 0;
    let t1 = opt & 2 != 0;
    match c.f {
        Fam::Unary => w.write_unary(v),
        Fam::Gamma => {
            if opt == OPT_DEFAULT {
                w.write_gamma(v)
            } else if t0 {
                w.write_gamma_param::<true>(v)
            } else {
                w.write_gamma_param::<false>(v)
            }
        }
        Fam::Delta => {
            if opt == OPT_DEFAULT {
                w.write_delta(v)
            } else {
                match (t0, t1) {
                    (false, false) => w.write_delta_param::<false, false>(v),
                    (false, true) => w.write_delta_param::<false, true>(v),
                    (true, false) => w.write_delta_param::<true, false>(v),
                    (true, true) => w.write_delta_param::<true, true>(v),
                }
            }
        }
        Fam::Omega => w.write_omega(v),
        Fam::Zeta => {
            if opt == OPT_DEFAULT {
                if c.k == 3 {
                    w.write_zeta3(v)
                } else {
                    w.write_zeta(v, c.k)
                }
            } else if opt & 8 != 0 {
                w.write_zeta(v, c.k)
            } else if c.k == 3 && opt & 4 == 0 {
                if t0 {
                    w.write_zeta3_param::<true>(v)
                } else {
                    w.write_zeta3_param::<false>(v)
                }
            } else if t0 {
                w.write_zeta_param::<true>(v, c.k)
            } else {
                w.write_zeta_param::<false>(v, c.k)
            }
        }
        Fam::Pi => w.write_pi(v, c.k),
        Fam::Rice => w.write_rice(v, c.k),
        Fam::ExpGolomb => w.write_exp_golomb(v, c.k),
        Fam::Golomb => w.write_golomb(v, c.b),
        Fam::MinBin => w.write_minimal_binary(v, c.b),
        Fam::VByteBe => w.write_vbyte_be(v),
        Fam::VByteLe => w.write_vbyte_le(v),
    }
}

impl<E: Endianness, BW: AllWrite<E>> DynWriter for WrObj<E, BW> {
    fn write_bits(&mut self, v: u64, n: usize) -> Out<usize> {
        let w = self.w.as_mut().unwrap();
        guard(|| w.write_bits(v, n))
    }
    fn write_unary(&mut self, x: u64) -> Out<usize> {
        let w = self.w.as_mut().unwrap();
        guard(|| w.write_unary(x))
    }
    fn write_code(&mut self, c: &CodeSpec, opt: u8, v: u64) -> Out<usize> {
        let w = self.w.as_mut().unwrap();
        guard(|| do_write_code::<E, BW>(w, c, opt, v))
    }
    fn write_bytes(&mut self, bs: &[u8]) -> Option<Out<usize>> {
        let f = self.iow?;
        let w = self.w.as_mut().unwrap();
        Some(guard(|| f(w, bs)))
    }
    fn flush(&mut self) -> Out<usize> {
        let w = self.w.as_mut().unwrap();
        guard(|| w.flush())
    }
    fn take_new_bytes(&mut self) -> Vec<u8> {
        std::mem::take(&mut *self.log.borrow_mut())
    }
    fn close(&mut self, how: &str) -> Out<()> {
        let w = self.w.take().unwrap();
        match how {
            "drop" => guard(|| {
                drop(w);
                Ok::<(), ()>(())
            }),
            "into_inner" => {
                let f = self.into_inner;
                guard(|| match f {
                    Some(f) => {
                        if f(w) {
                            Ok(())
                        } else {
                            Err(())
                        }
                    }
                    None => {
                        drop(w);
                        Ok(())
                    }
                })
            }
            _ => {
                let mut w = w;
                guard(|| {
                    let r = w.flush().map(|_| ());
                    drop(w);
                    r
                })
            }
        }
    }
    fn image(&self) -> Vec<u8> {
        (self.image)()
    }
    fn counter(&self) -> Option<u64> {
        let f = self.counter?;
        Some(f(self.w.as_ref().unwrap()))
    }
    fn copy_from(&mut self, r: &mut dyn DynReader, n: u64) -> (Out<()>, &'static str) {
        let w = self.w.as_mut().unwrap();
        let mut br = RBridge::<E>(r, PhantomData);
        copy_guard(|| w.copy_from::<E, _>(&mut br, n))
    }
    fn is_le(&self) -> bool {
        E::IS_LITTLE
    }
    fn forget(&mut self) {
        if let Some(w) = self.w.take() {
            std::mem::forget(w);
        }
    }
}

// ---------------------------------------------------------------------
// readers

pub struct RdObj<E: Endianness, R: CodesRead<E>> {
    pub r: R,
    pub pos: Option<fn(&mut R) -> Result<u64, ()>>,
    pub seek: Option<fn(&mut R, u64) -> Result<(), ()>>,
    pub cloner: Option<fn(&R) -> R>,
    pub ior: Option<fn(&mut R, &mut [u8]) -> std::io::Result<usize>>,
    pub counter: Option<fn(&R) -> u64>,
    pub _e: PhantomData<E>,
}

fn do_read_code<E: Endianness, R: CodesRead<E>>(
    r: &mut R,
    c: &CodeSpec,
    opt: u8,
) -> Result<u64, R::Error> {
    if opt == OPT_ENUM {
        if let Some(e) = codes_enum_of(c) {
            return DynamicCodeRead::read(&e, r);
        }
    }
    let t0 = opt & 1 != 0;
    let t1 = opt & 2 != 0;
    match c.f {
        Fam::Unary => r.read_unary(),
        Fam::Gamma => {
            if opt == OPT_DEFAULT {
                r.read_gamma()
            } else if t0 {
                r.read_gamma_param::<true>()
            } else {
                r.read_gamma_param::<false>()
            }
        }
        Fam::Delta => {
            if opt == OPT_DEFAULT {
                r.read_delta()
            } else {
                match (t0, t1) {
                    (false, false) => r.read_delta_param::<false, false>(),
                    (false, true) => r.read_delta_param::<false, true>(),
                    (true, false) => r.read_delta_param::<true, false>(),
                    (true, true) => r.read_delta_param::<true, true>(),
                }
            }
        }
        Fam::Omega => r.read_omega(),
        Fam::Zeta => {
            if opt == OPT_DEFAULT {
                if c.k == 3 {
                    r.read_zeta3()
                } else {
                    r.read_zeta(c.k)
                }
            } else if opt & 8 != 0 {
                r.read_zeta(c.k)
            } else if c.k == 3 && opt & 4 == 0 {
                if t0 {
                    r.read_zeta3_param::<true>()
                } else {
                    r.read_zeta3_param::<false>()
                }
            } else {
                r.read_zeta_param(c.k)
            }
        }
        Fam::Pi => r.read_pi(c.k),
        Fam::Rice => r.read_rice(c.k),
        Fam::ExpGolomb => r.read_exp_golomb(c.k),
        Fam::Golomb => r.read_golomb(c.b),
        Fam::MinBin => r.read_minimal_binary(c.b),
        Fam::VByteBe => r.read_vbyte_be(),
        Fam::VByteLe => r.read_vbyte_le(),
    }
}

impl<E: Endianness, R: CodesRead<E> + 'static> DynReader for RdObj<E, R> {
    fn read_bits(&mut self, n: usize) -> Out<u64> {
        let r = &mut self.r;
        guard(|| r.read_bits(n))
    }
    fn peek_bits(&mut self, n: usize) -> Out<u64> {
        let r = &mut self.r;
        guard(|| r.peek_bits(n).map(|x| x.cast()))
    }
    fn skip_bits(&mut self, n: usize) -> Out<()> {
        let r = &mut self.r;
        guard(|| r.skip_bits(n))
    }
    fn skip_bits_after_peek(&mut self, n: usize) -> Out<()> {
        let r = &mut self.r;
        guard(|| {
            r.skip_bits_after_peek(n);
            Ok::<(), ()>(())
        })
    }
    fn read_unary(&mut self) -> Out<u64> {
        let r = &mut self.r;
        guard(|| r.read_unary())
    }
    fn read_code(&mut self, c: &CodeSpec, opt: u8) -> Out<u64> {
        let r = &mut self.r;
        guard(|| do_read_code::<E, R>(r, c, opt))
    }
    fn read_bytes(&mut self, k: usize) -> Option<Out<(usize, Vec<u8>)>> {
        let f = self.ior?;
        let r = &mut self.r;
        Some(guard(|| {
            let mut buf = vec![0xEEu8; k];
            let n = f(r, &mut buf)?;
            Ok::<_, std::io::Error>((n, buf))
        }))
    }
    fn bit_pos(&mut self) -> Option<Out<u64>> {
        let f = self.pos?;
        let r = &mut self.r;
        Some(guard(|| f(r)))
    }
    fn set_bit_pos(&mut self, p: u64) -> Option<Out<()>> {
        let f = self.seek?;
        let r = &mut self.r;
        Some(guard(|| f(r, p)))
    }
    fn try_clone(&self) -> Option<Box<dyn DynReader>> {
        let f = self.cloner?;
        Some(Box::new(RdObj::<E, R> {
            r: f(&self.r),
            pos: self.pos,
            seek: self.seek,
            cloner: self.cloner,
            ior: self.ior,
            counter: self.counter,
            _e: PhantomData,
        }))
    }
    fn counter(&self) -> Option<u64> {
        let f = self.counter?;
        Some(f(&self.r))
    }
    fn copy_to(&mut self, w: &mut dyn DynWriter, n: u64) -> (Out<()>, &'static str) {
        let r = &mut self.r;
        let mut bw = WBridge::<E>(w, PhantomData);
        copy_guard(|| r.copy_to::<E, _>(&mut bw, n))
    }
    fn is_le(&self) -> bool {
        E::IS_LITTLE
    }
}
