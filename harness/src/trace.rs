//! ndjson trace emission (one event per public call, logged at the call's return).

use crate::dynio::*;
use std::fs::File;
use std::io::{BufWriter, Write};
use std::sync::atomic::{AtomicU64, Ordering};

/// number of events emitted so far; the watchdog thread turns a library call
/// that does not return into exit code 3 (the trace written so far is the replay)
pub static PROGRESS: AtomicU64 = AtomicU64::new(0);

pub fn start_watchdog(secs: u64) {
    std::thread::spawn(move || {
        let mut last = u64::MAX;
        loop {
            std::thread::sleep(std::time::Duration::from_secs(secs));
            let now = PROGRESS.load(Ordering::Relaxed);
            if now == last {
                eprintln!("watchdog: no event for {} s after event {}", secs, now);
                std::process::exit(3);
            }
            last = now;
        }
    });
}

pub struct Tr {
    out: BufWriter<File>,
    pub events: u64,
    next_id: i64,
}

pub struct Ev {
    s: String,
}

impl Ev {
    pub fn new(op: &str) -> Ev {
        let mut s = String::with_capacity(160);
        s.push_str("{\"op\":\"");
        s.push_str(op);
        s.push('"');
        Ev { s }
    }
    pub fn i(mut self, k: &str, v: i64) -> Ev {
        self.s.push_str(&format!(",\"{}\":{}", k, v));
        self
    }
    pub fn s(mut self, k: &str, v: &str) -> Ev {
        self.s.push_str(&format!(",\"{}\":\"{}\"", k, v));
        self
    }
    pub fn b(mut self, k: &str, v: bool) -> Ev {
        self.s.push_str(&format!(",\"{}\":{}", k, v));
        self
    }
    /// a 64-bit quantity as its 8 bytes, most significant first
    pub fn u64(self, k: &str, v: u64) -> Ev {
        self.bytes(k, &v.to_be_bytes())
    }
    pub fn u128(self, k: &str, v: u128) -> Ev {
        self.bytes(k, &v.to_be_bytes())
    }
    pub fn bytes(mut self, k: &str, v: &[u8]) -> Ev {
        self.s.push_str(&format!(",\"{}\":[", k));
        for (i, b) in v.iter().enumerate() {
            if i > 0 {
                self.s.push(',');
            }
            self.s.push_str(&b.to_string());
        }
        self.s.push(']');
        self
    }
    /// a pre-rendered JSON value
    pub fn raw(mut self, k: &str, json: &str) -> Ev {
        self.s.push_str(&format!(",\"{}\":{}", k, json));
        self
    }
    pub fn ints(mut self, k: &str, v: &[i64]) -> Ev {
        self.s.push_str(&format!(",\"{}\":[", k));
        for (i, b) in v.iter().enumerate() {
            if i > 0 {
                self.s.push(',');
            }
            self.s.push_str(&b.to_string());
        }
        self.s.push(']');
        self
    }
    pub fn code(self, c: &CodeSpec, opt: u8) -> Ev {
        self.s("c", c.f.name())
            .i("k", c.k as i64)
            .u64("cb", c.b)
            .i("opt", opt as i64)
    }
    pub fn res<T>(self, r: &Out<T>) -> Ev {
        self.s("res", r.tag())
    }
}

impl Tr {
    pub fn create(path: &str) -> Tr {
        Tr {
            out: BufWriter::with_capacity(1 << 20, File::create(path).expect("create trace")),
            events: 0,
            next_id: 1,
        }
    }
    pub fn emit(&mut self, e: Ev) {
        self.out.write_all(e.s.as_bytes()).unwrap();
        self.out.write_all(b"}\n").unwrap();
        // keep the file current: if the next library call never returns, the
        // prefix on disk is the replay
        self.out.flush().unwrap();
        self.events += 1;
        PROGRESS.fetch_add(1, Ordering::Relaxed);
    }
    pub fn new_id(&mut self) -> i64 {
        let i = self.next_id;
        self.next_id += 1;
        i
    }
    /// forget every object (bounds the trace-validation state)
    pub fn reset(&mut self) {
        self.emit(Ev::new("reset"));
        self.next_id = 1;
    }
    pub fn finish(mut self) -> u64 {
        self.out.flush().unwrap();
        self.events
    }
}
