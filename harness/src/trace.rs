//! ndjson trace emission (one event per public call, logged at the call's return).

use crate::dynio::*;
use std::fs::File;
use std::io::{BufWriter, Write};

pub struct Tr {
    out: BufWriter<File>,
    pub events: u64,
    next_id: i64,
}

pub struct Ev {
    s: String,
}

impl Ev {
    pub fn new(op: &str) -> Ev {
        let mut s = String::with_capacity(160);
        s.push_str("{\"op\":\"");
        s.push_str(op);
        s.push('"');
        Ev { s }
    }
    pub fn i(mut self, k: &str, v: i64) -> Ev {
        self.s.push_str(&format!(",\"{}\":{}", k, v));
        self
    }
    pub fn s(mut self, k: &str, v: &str) -> Ev {
        self.s.push_str(&format!(",\"{}\":\"{}\"", k, v));
        self
    }
    pub fn b(mut self, k: &str, v: bool) -> Ev {
        self.s.push_str(&format!(",\"{}\":{}", k, v));
        self
    }
    /// a 64-bit quantity as its 8 bytes, most significant first
    pub fn u64(self, k: &str, v: u64) -> Ev {
        self.bytes(k, &v.to_be_bytes())
    }
    pub fn u128(self, k: &str, v: u128) -> Ev {
        self.bytes(k, &v.to_be_bytes())
    }
    pub fn bytes(mut self, k: &str, v: &[u8]) -> Ev {
        self.s.push_str(&format!(",\"{}\":[", k));
        for (i, b) in v.iter().enumerate() {
            if i > 0 {
                self.s.push(',');
            }
            self.s.push_str(&b.to_string());
        }
        self.s.push(']');
        self
    }
    pub fn ints(mut self, k: &str, v: &[i64]) -> Ev {
        self.s.push_str(&format!(",\"{}\":[", k));
        for (i, b) in v.iter().enumerate() {
            if i > 0 {
                self.s.push(',');
            }
            self.s.push_str(&b.to_string());
        }
        self.s.push(']');
        self
    }
    pub fn code(self, c: &CodeSpec, opt: u8) -> Ev {
        self.s("c", c.f.name())
            .i("k", c.k as i64)
            .u64("cb", c.b)
            .i("opt", opt as i64)
    }
    pub fn res<T>(self, r: &Out<T>) -> Ev {
        self.s("res", r.tag())
    }
}

impl Tr {
    pub fn create(path: &str) -> Tr {
        Tr {
            out: BufWriter::with_capacity(1 << 20, File::create(path).expect("create trace")),
            events: 0,
            next_id: 1,
        }
    }
    pub fn emit(&mut self, e: Ev) {
        self.out.write_all(e.s.as_bytes()).unwrap();
        self.out.write_all(b"}\n").unwrap();
        self.events += 1;
    }
    pub fn new_id(&mut self) -> i64 {
        let i = self.next_id;
        self.next_id += 1;
        i
    }
    /// forget every object (bounds the trace-validation state)
    pub fn reset(&mut self) {
        self.emit(Ev::new("reset"));
        self.next_id = 1;
    }
    pub fn finish(mut self) -> u64 {
        self.out.flush().unwrap();
        self.events
    }
}
