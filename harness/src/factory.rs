//! Construction of every configuration of reader / writer as a dyn object.

use crate::dynio::*;
use dsi_bitstream::prelude::*;
use std::cell::RefCell;
use std::io::{BufReader, Cursor};
use std::marker::PhantomData;
use std::rc::Rc;

#[derive(Clone, Debug, PartialEq, Eq, Hash)]
pub struct WCfg {
    pub le: bool,
    pub w: usize,
    /// vec | slice | adapter | rec
    pub backend: &'static str,
    /// none | count | dbg | countdbg
    pub wrap: &'static str,
}

#[derive(Clone, Debug, PartialEq, Eq, Hash)]
pub struct RCfg {
    pub le: bool,
    pub w: usize,
    /// buf | unbuf
    pub kind: &'static str,
    /// inf | strict | vecrb | slicerb | cursor | bufreader
    pub backend: &'static str,
    pub wrap: &'static str,
}

impl RCfg {
    pub fn strict(&self) -> bool {
        self.backend != "inf"
    }
    pub fn peek_max(&self) -> usize {
        if self.kind == "unbuf" {
            32
        } else {
            self.w
        }
    }
}

pub const WRITER_WORDS: [usize; 5] = [8, 16, 32, 64, 128];
pub const READER_WORDS: [usize; 4] = [8, 16, 32, 64];
pub const WRITER_BACKENDS: [&str; 4] = ["vec", "slice", "adapter", "rec"];
pub const READER_BACKENDS: [&str; 6] = ["inf", "strict", "vecrb", "slicerb", "cursor", "bufreader"];
pub const UNBUF_BACKENDS: [&str; 4] = ["inf", "strict", "vecrb", "cursor"];

pub fn all_wcfgs() -> Vec<WCfg> {
    let mut v = vec![];
    for le in [false, true] {
        for w in WRITER_WORDS {
            for backend in WRITER_BACKENDS {
                v.push(WCfg { le, w, backend, wrap: "none" });
            }
        }
    }
    v
}

pub fn all_rcfgs() -> Vec<RCfg> {
    let mut v = vec![];
    for le in [false, true] {
        for w in READER_WORDS {
            for backend in READER_BACKENDS {
                v.push(RCfg { le, w, kind: "buf", backend, wrap: "none" });
            }
        }
        for backend in UNBUF_BACKENDS {
            v.push(RCfg { le, w: 64, kind: "unbuf", backend, wrap: "none" });
        }
    }
    v
}

struct Keep<T>(#[allow(dead_code)] Box<T>);

macro_rules! wr_obj {
    ($E:ty, $bw:expr, $log:expr, $image:expr, $ii:expr) => {{
        Box::new(WrObj::<$E, _> {
            w: Some($bw),
            log: $log,
            image: $image,
            into_inner: $ii,
            iow: Some(|w, b| std::io::Write::write(w, b)),
            counter: None,
            _e: PhantomData,
        }) as Box<dyn DynWriter>
    }};
}

/// growable-vector backends start from a vector that already holds a few zero words
/// (a writer must overwrite from the start and never shorten what is behind the cursor)
pub fn vec_presize(cap_words: usize) -> usize {
    cap_words % 7
}

macro_rules! mk_writer_ew {
    ($E:ty, $W:ty, $cfg:expr, $cap:expr) => {{
        let log: Log = Rc::new(RefCell::new(Vec::new()));
        match ($cfg.backend, $cfg.wrap) {
            ("vec", "none") => {
                let store: *mut Vec<$W> = Box::into_raw(Box::new(vec![0 as $W; vec_presize($cap)]));
                let inner = MemWordWriterVec::new(PtrVec(store));
                let bw = BufBitWriter::<$E, _>::new(Recording { inner, log: log.clone() });
                wr_obj!($E, bw, log, Box::new(move || words_to_bytes(unsafe { &*store })),
                    Some(|w: BufBitWriter<$E, Recording<MemWordWriterVec<$W, PtrVec<$W>>>>| w.into_inner().is_ok()))
            }
            ("slice", "none") => {
                let store: *mut Vec<$W> = Box::into_raw(Box::new(vec![0 as $W; $cap]));
                let inner = MemWordWriterSlice::new(PtrSlice(store));
                let bw = BufBitWriter::<$E, _>::new(Recording { inner, log: log.clone() });
                wr_obj!($E, bw, log, Box::new(move || words_to_bytes(unsafe { &*store })),
                    Some(|w: BufBitWriter<$E, Recording<MemWordWriterSlice<$W, PtrSlice<$W>>>>| w.into_inner().is_ok()))
            }
            ("adapter", "none") => {
                let sink: Log = Rc::new(RefCell::new(Vec::new()));
                let inner = WordAdapter::<$W, _>::new(SharedSink(sink.clone()));
                let bw = BufBitWriter::<$E, _>::new(Recording { inner, log: log.clone() });
                wr_obj!($E, bw, log, Box::new(move || sink.borrow().clone()),
                    Some(|w: BufBitWriter<$E, Recording<WordAdapter<$W, SharedSink>>>| w.into_inner().is_ok()))
            }
            ("rec", "none") => {
                let all: Log = Rc::new(RefCell::new(Vec::new()));
                // the recorder's own full log doubles as the image
                let inner = Recording { inner: NullSink::<$W>::new(), log: all.clone() };
                let bw = BufBitWriter::<$E, _>::new(Recording { inner, log: log.clone() });
                wr_obj!($E, bw, log, Box::new(move || all.borrow().clone()),
                    Some(|w: BufBitWriter<$E, Recording<Recording<NullSink<$W>>>>| w.into_inner().is_ok()))
            }
            ("vec", "count") => {
                let store: *mut Vec<$W> = Box::into_raw(Box::new(vec![0 as $W; vec_presize($cap)]));
                let inner = MemWordWriterVec::new(PtrVec(store));
                let bw = BufBitWriter::<$E, _>::new(Recording { inner, log: log.clone() });
                let cw = CountBitWriter::<$E, _>::new(bw);
                Box::new(WrObj::<$E, _> {
                    w: Some(cw),
                    log,
                    image: Box::new(move || words_to_bytes(unsafe { &*store })),
                    into_inner: None,
                    iow: None,
                    counter: Some(|w| w.bits_written as u64),
                    _e: PhantomData,
                }) as Box<dyn DynWriter>
            }
            ("vec", "dbg") => {
                let store: *mut Vec<$W> = Box::into_raw(Box::new(vec![0 as $W; vec_presize($cap)]));
                let inner = MemWordWriterVec::new(PtrVec(store));
                let bw = BufBitWriter::<$E, _>::new(Recording { inner, log: log.clone() });
                let cw = DbgBitWriter::<$E, _>::new(bw);
                Box::new(WrObj::<$E, _> {
                    w: Some(cw),
                    log,
                    image: Box::new(move || words_to_bytes(unsafe { &*store })),
                    into_inner: None,
                    iow: None,
                    counter: None,
                    _e: PhantomData,
                }) as Box<dyn DynWriter>
            }
            ("vec", "countdbg") => {
                let store: *mut Vec<$W> = Box::into_raw(Box::new(vec![0 as $W; vec_presize($cap)]));
                let inner = MemWordWriterVec::new(PtrVec(store));
                let bw = BufBitWriter::<$E, _>::new(Recording { inner, log: log.clone() });
                let cw = CountBitWriter::<$E, _>::new(DbgBitWriter::<$E, _>::new(bw));
                Box::new(WrObj::<$E, _> {
                    w: Some(cw),
                    log,
                    image: Box::new(move || words_to_bytes(unsafe { &*store })),
                    into_inner: None,
                    iow: None,
                    counter: Some(|w| w.bits_written as u64),
                    _e: PhantomData,
                }) as Box<dyn DynWriter>
            }
            _ => panic!("unsupported writer config {:?}", $cfg),
        }
    }};
}

macro_rules! mk_writer_e {
    ($E:ty, $cfg:expr, $cap:expr) => {
        match $cfg.w {
            8 => mk_writer_ew!($E, u8, $cfg, $cap),
            16 => mk_writer_ew!($E, u16, $cfg, $cap),
            32 => mk_writer_ew!($E, u32, $cfg, $cap),
            64 => mk_writer_ew!($E, u64, $cfg, $cap),
            128 => mk_writer_ew!($E, u128, $cfg, $cap),
            _ => panic!("bad word size"),
        }
    };
}

/// `cap_words`: size of the fixed slice backend, in words.
pub fn make_writer(cfg: &WCfg, cap_words: usize) -> Box<dyn DynWriter> {
    if cfg.le {
        mk_writer_e!(LE, cfg, cap_words)
    } else {
        mk_writer_e!(BE, cfg, cap_words)
    }
}

// ---------------------------------------------------------------------

macro_rules! rd_obj {
    ($E:ty, $r:expr, seek, clone, io) => {{
        Box::new(RdObj::<$E, _> {
            r: $r,
            pos: Some(|r| r.bit_pos().map_err(|_| ())),
            seek: Some(|r, p| r.set_bit_pos(p).map_err(|_| ())),
            cloner: Some(|r| r.clone()),
            ior: Some(|r, b| std::io::Read::read(r, b)),
            counter: None,
            _e: PhantomData,
        }) as Box<dyn DynReader>
    }};
    ($E:ty, $r:expr, seek, noclone, io) => {{
        Box::new(RdObj::<$E, _> {
            r: $r,
            pos: Some(|r| r.bit_pos().map_err(|_| ())),
            seek: Some(|r, p| r.set_bit_pos(p).map_err(|_| ())),
            cloner: None,
            ior: Some(|r, b| std::io::Read::read(r, b)),
            counter: None,
            _e: PhantomData,
        }) as Box<dyn DynReader>
    }};
}

macro_rules! mk_bufreader_ew {
    ($E:ty, $W:ty, $cfg:expr, $bytes:expr, $start:expr) => {{
        match ($cfg.backend, $cfg.wrap) {
            ("inf", "none") => {
                let words: Vec<$W> = bytes_to_words($bytes);
                rd_obj!($E, BufBitReader::<$E, _>::new(MemWordReader::new(words)), seek, clone, io)
            }
            ("strict", "none") => {
                let words: Vec<$W> = bytes_to_words($bytes);
                rd_obj!($E, BufBitReader::<$E, _>::new(MemWordReader::new_strict(words)), seek, clone, io)
            }
            ("vecrb", "none") => {
                let words: Vec<$W> = bytes_to_words($bytes);
                rd_obj!($E, BufBitReader::<$E, _>::new(MemWordWriterVec::new(words)), seek, noclone, io)
            }
            ("slicerb", "none") => {
                let words: Vec<$W> = bytes_to_words($bytes);
                rd_obj!($E, BufBitReader::<$E, _>::new(MemWordWriterSlice::new(words)), seek, noclone, io)
            }
            ("cursor", "none") => {
                rd_obj!($E, BufBitReader::<$E, _>::new(WordAdapter::<$W, _>::new(Cursor::new($bytes.to_vec()))), seek, clone, io)
            }
            ("bufreader", "none") => {
                rd_obj!($E, BufBitReader::<$E, _>::new(WordAdapter::<$W, _>::new(BufReader::with_capacity(13, Cursor::new($bytes.to_vec())))), seek, noclone, io)
            }
            ("inf", "count") => {
                let words: Vec<$W> = bytes_to_words($bytes);
                let mut inner = BufBitReader::<$E, _>::new(MemWordReader::new(words));
                // the wrapper may be created on a reader that has already consumed bits
                let mut left = $start;
                while left > 0 {
                    let k = left.min(61);
                    let _ = inner.read_bits(k as usize);
                    left -= k;
                }
                let r = CountBitReader::<$E, _>::new(inner);
                Box::new(RdObj::<$E, _> {
                    r,
                    pos: Some(|r| r.bit_pos().map_err(|_| ())),
                    seek: Some(|r, p| r.set_bit_pos(p).map_err(|_| ())),
                    cloner: Some(|r| r.clone()),
                    ior: None,
                    counter: Some(|r| r.bits_read as u64),
                    _e: PhantomData,
                }) as Box<dyn DynReader>
            }
            ("inf", "dbg") => {
                let words: Vec<$W> = bytes_to_words($bytes);
                let r = DbgBitReader::<$E, _>::new(BufBitReader::<$E, _>::new(MemWordReader::new(words)));
                Box::new(RdObj::<$E, _> {
                    r,
                    pos: None,
                    seek: None,
                    cloner: None,
                    ior: None,
                    counter: None,
                    _e: PhantomData,
                }) as Box<dyn DynReader>
            }
            ("inf", "countdbg") => {
                let words: Vec<$W> = bytes_to_words($bytes);
                let r = CountBitReader::<$E, _>::new(DbgBitReader::<$E, _>::new(BufBitReader::<$E, _>::new(MemWordReader::new(words))));
                Box::new(RdObj::<$E, _> {
                    r,
                    pos: None,
                    seek: None,
                    cloner: None,
                    ior: None,
                    counter: Some(|r| r.bits_read as u64),
                    _e: PhantomData,
                }) as Box<dyn DynReader>
            }
            _ => panic!("unsupported reader config {:?}", $cfg),
        }
    }};
}

macro_rules! mk_unbuf_e {
    ($E:ty, $cfg:expr, $bytes:expr) => {{
        match ($cfg.backend, $cfg.wrap) {
            ("inf", "none") => {
                let words: Vec<u64> = bytes_to_words($bytes);
                rd_obj!($E, BitReader::<$E, _>::new(MemWordReader::new(words)), seek, clone, io)
            }
            ("strict", "none") => {
                let words: Vec<u64> = bytes_to_words($bytes);
                rd_obj!($E, BitReader::<$E, _>::new(MemWordReader::new_strict(words)), seek, clone, io)
            }
            ("vecrb", "none") => {
                let words: Vec<u64> = bytes_to_words($bytes);
                rd_obj!($E, BitReader::<$E, _>::new(MemWordWriterVec::new(words)), seek, noclone, io)
            }
            ("cursor", "none") => {
                rd_obj!($E, BitReader::<$E, _>::new(WordAdapter::<u64, _>::new(Cursor::new($bytes.to_vec()))), seek, clone, io)
            }
            ("inf", "count") => {
                let words: Vec<u64> = bytes_to_words($bytes);
                let r = CountBitReader::<$E, _>::new(BitReader::<$E, _>::new(MemWordReader::new(words)));
                Box::new(RdObj::<$E, _> {
                    r,
                    pos: Some(|r| r.bit_pos().map_err(|_| ())),
                    seek: None,
                    cloner: Some(|r| r.clone()),
                    ior: None,
                    counter: Some(|r| r.bits_read as u64),
                    _e: PhantomData,
                }) as Box<dyn DynReader>
            }
            _ => panic!("unsupported reader config {:?}", $cfg),
        }
    }};
}

macro_rules! mk_reader_e {
    ($E:ty, $cfg:expr, $bytes:expr, $start:expr) => {
        if $cfg.kind == "unbuf" {
            mk_unbuf_e!($E, $cfg, $bytes)
        } else {
            match $cfg.w {
                8 => mk_bufreader_ew!($E, u8, $cfg, $bytes, $start),
                16 => mk_bufreader_ew!($E, u16, $cfg, $bytes, $start),
                32 => mk_bufreader_ew!($E, u32, $cfg, $bytes, $start),
                64 => mk_bufreader_ew!($E, u64, $cfg, $bytes, $start),
                _ => panic!("bad word size"),
            }
        }
    };
}

/// `bytes.len()` must be a multiple of the word size in bytes.
pub fn make_reader(cfg: &RCfg, bytes: &[u8]) -> Box<dyn DynReader> {
    make_reader_at(cfg, bytes, 0)
}

/// `start`: bits the inner reader has consumed before a counting wrapper is put around it
/// (only meaningful for wrap = "count" over a buffered zero-extended reader)
pub fn make_reader_at(cfg: &RCfg, bytes: &[u8], start: u64) -> Box<dyn DynReader> {
    let _ = Keep(Box::new(0u8));
    if cfg.le {
        mk_reader_e!(LE, cfg, bytes, start)
    } else {
        mk_reader_e!(BE, cfg, bytes, start)
    }
}
