//! Traced objects: every call on them is forwarded to the library and logged.

use crate::dynio::*;
use crate::factory::*;
use crate::trace::*;

pub struct TW {
    pub id: i64,
    pub w: Box<dyn DynWriter>,
    pub cfg: WCfg,
    pub dead: bool,
    pub closed: bool,
}

impl Drop for TW {
    fn drop(&mut self) {
        // a writer the driver did not close explicitly is abandoned without running the library's
        // destructor: it flushes and unwraps, which panics when the backend has failed or is full
        // (closing is an observed operation of its own: TW::close)
        if !self.closed {
            self.w.forget();
        }
    }
}

fn ename(le: bool) -> &'static str {
    if le {
        "le"
    } else {
        "be"
    }
}

impl TW {
    pub fn new(tr: &mut Tr, cfg: &WCfg, cap_words: usize) -> TW {
        let id = tr.new_id();
        let w = make_writer(cfg, cap_words);
        tr.emit(
            Ev::new("new_writer")
                .i("o", id)
                .s("e", ename(cfg.le))
                .i("w", cfg.w as i64)
                .s("backend", cfg.backend)
                .s("wrap", cfg.wrap)
                .i("cap", if cfg.backend == "slice" { cap_words as i64 } else { -1 })
                // bytes the backend's storage holds before the first write (-1: not a memory backend)
                .i("init", match cfg.backend {
                    "slice" => (cap_words * cfg.w / 8) as i64,
                    "vec" => (vec_presize(cap_words) * cfg.w / 8) as i64,
                    _ => -1,
                })
                .b("checks", cfg!(feature = "checks"))
                .b("has_counter", w.counter().is_some()),
        );
        TW { id, w, cfg: cfg.clone(), dead: false, closed: false }
    }

    fn tail<T>(&mut self, e: Ev, r: &Out<T>) -> Ev {
        if !r.is_ok() {
            self.dead = true;
        }
        let nb = self.w.take_new_bytes();
        // flush() calls that reached the backend since the previous event of any writer
        let bf = backend_flushes();
        let bfl = BFL_SEEN.with(|c| {
            let d = bf - c.get();
            c.set(bf);
            d
        });
        if nb.len() >= RUNAWAY_BYTES {
            // the operation delivered megabytes: no step of the specification does that; the event is
            // logged with an outcome no action accepts and the writer is abandoned
            self.dead = true;
            return e.s("res", "runaway").bytes("nb", &nb[..64]).i("delivered", nb.len() as i64);
        }
        let e = e.res(r).bytes("nb", &nb).i("bfl", bfl as i64);
        match (self.closed, self.w_counter()) {
            (false, Some(c)) => e.i("cnt", c as i64),
            _ => e,
        }
    }

    fn w_counter(&self) -> Option<u64> {
        if self.closed {
            None
        } else {
            self.w.counter()
        }
    }

    pub fn write_bits(&mut self, tr: &mut Tr, v: u64, n: usize) -> Out<usize> {
        let r = self.w.write_bits(v, n);
        let e = Ev::new("write_bits").i("o", self.id).u64("v", v).i("n", n as i64);
        let e = self.tail(e, &r).i("ret", ret_of(&r));
        tr.emit(e);
        r
    }

    pub fn write_unary(&mut self, tr: &mut Tr, x: u64) -> Out<usize> {
        let r = self.w.write_unary(x);
        let e = Ev::new("write_unary").i("o", self.id).u64("v", x);
        let e = self.tail(e, &r).i("ret", ret_of(&r));
        tr.emit(e);
        r
    }

    pub fn write_code(&mut self, tr: &mut Tr, c: &CodeSpec, opt: u8, v: u64) -> Out<usize> {
        let r = self.w.write_code(c, opt, v);
        let e = Ev::new("write_code").i("o", self.id).code(c, opt).u64("v", v);
        let e = self.tail(e, &r).i("ret", ret_of(&r));
        tr.emit(e);
        r
    }

    pub fn write_bytes(&mut self, tr: &mut Tr, bs: &[u8]) -> Option<Out<usize>> {
        let r = self.w.write_bytes(bs)?;
        let e = Ev::new("write_bytes").i("o", self.id).bytes("bs", bs);
        let e = self.tail(e, &r).i("ret", ret_of(&r));
        tr.emit(e);
        Some(r)
    }

    pub fn flush(&mut self, tr: &mut Tr) -> Out<usize> {
        let r = self.w.flush();
        let e = Ev::new("flush").i("o", self.id);
        let e = self.tail(e, &r).i("ret", ret_of(&r));
        tr.emit(e);
        r
    }

    /// how: flush | drop | into_inner.  Logs the final storage image of the real backend.
    pub fn close(&mut self, tr: &mut Tr, how: &str) -> Out<()> {
        let r = self.w.close(how);
        self.closed = true;
        let e = Ev::new("close").i("o", self.id).s("how", how);
        let e = self.tail(e, &r);
        let img = self.w.image();
        tr.emit(e.bytes("image", &img));
        self.dead = true;
        r
    }
}

thread_local! {
    static BFL_SEEN: std::cell::Cell<u64> = const { std::cell::Cell::new(0) };
}

fn ret_of(r: &Out<usize>) -> i64 {
    match r {
        Out::Ok(k) => *k as i64,
        _ => -1,
    }
}

pub struct TRd {
    pub id: i64,
    pub r: Box<dyn DynReader>,
    pub cfg: RCfg,
    pub dead: bool,
    pub seekable: bool,
    /// length of the data in bits (driver bookkeeping: on zero-extended readers a
    /// unary read past the last one never returns, by design, and is never issued)
    pub nbits: u64,
    pub ends_with_one: bool,
    /// the byte image (driver bookkeeping about its own input, e.g. how many zeros lie ahead)
    pub image: std::rc::Rc<Vec<u8>>,
}

impl TRd {
    pub fn new(tr: &mut Tr, cfg: &RCfg, bytes: &[u8]) -> TRd {
        Self::new_at(tr, cfg, bytes, 0)
    }

    /// a counting wrapper created around a reader that has already consumed `start' bits
    pub fn new_at(tr: &mut Tr, cfg: &RCfg, bytes: &[u8], start: u64) -> TRd {
        let id = tr.new_id();
        let mut r = make_reader_at(cfg, bytes, start);
        let seekable = r.bit_pos().is_some();
        tr.emit(
            Ev::new("new_reader")
                .i("o", id)
                .s("e", ename(cfg.le))
                .i("w", cfg.w as i64)
                .s("kind", cfg.kind)
                .s("backend", cfg.backend)
                .s("wrap", cfg.wrap)
                .b("strict", cfg.strict())
                .i("peek", cfg.peek_max() as i64)
                .b("has_counter", r.counter().is_some())
                .i("start", start as i64)
                .bytes("bytes", bytes),
        );
        let ends_with_one = bytes.last().map(|b| if cfg.le { b & 0x80 != 0 } else { b & 1 != 0 }).unwrap_or(false);
        TRd { id, r, cfg: cfg.clone(), dead: false, seekable, nbits: 8 * bytes.len() as u64, ends_with_one, image: std::rc::Rc::new(bytes.to_vec()) }
    }

    /// bits between the reader's position and the end of its data (None: not seekable / dead)
    pub fn remaining(&mut self) -> Option<u64> {
        let p = self.pos();
        if p < 0 {
            None
        } else {
            Some(self.nbits.saturating_sub(p as u64))
        }
    }

    fn pos(&mut self) -> i64 {
        if self.dead {
            return -1;
        }
        match self.r.bit_pos() {
            Some(Out::Ok(p)) if p < (1 << 31) => p as i64,
            Some(Out::Ok(_)) => -2,
            Some(_) => -3,
            None => -1,
        }
    }

    fn tail<T>(&mut self, e: Ev, r: &Out<T>) -> Ev {
        if !r.is_ok() {
            self.dead = true;
        }
        let p = self.pos();
        let e = e.res(r).i("pos", p);
        match self.r.counter() {
            Some(c) => e.i("cnt", c as i64),
            None => e,
        }
    }

    pub fn read_bits(&mut self, tr: &mut Tr, n: usize) -> Out<u64> {
        let r = self.r.read_bits(n);
        let e = Ev::new("read_bits").i("o", self.id).i("n", n as i64);
        let e = self.tail(e, &r).u64("v", r.clone().ok().unwrap_or(0));
        tr.emit(e);
        r
    }

    pub fn peek_bits(&mut self, tr: &mut Tr, n: usize) -> Out<u64> {
        let r = self.r.peek_bits(n);
        let e = Ev::new("peek_bits").i("o", self.id).i("n", n as i64);
        let e = self.tail(e, &r).u64("v", r.clone().ok().unwrap_or(0));
        tr.emit(e);
        r
    }

    pub fn skip_bits(&mut self, tr: &mut Tr, n: usize) -> Out<()> {
        let r = self.r.skip_bits(n);
        let e = Ev::new("skip_bits").i("o", self.id).i("n", n as i64);
        let e = self.tail(e, &r);
        tr.emit(e);
        r
    }

    /// the doc(hidden) primitive the tables and the wrappers are built on;
    /// only legal for n <= width of the immediately preceding successful peek
    pub fn skip_bits_after_peek(&mut self, tr: &mut Tr, n: usize) -> Out<()> {
        let r = self.r.skip_bits_after_peek(n);
        let e = Ev::new("skip_after_peek").i("o", self.id).i("n", n as i64);
        let e = self.tail(e, &r);
        tr.emit(e);
        r
    }

    /// is a unary read (or a code starting with one) guaranteed to return?
    pub fn unary_safe(&mut self) -> bool {
        if self.cfg.strict() {
            return true;
        }
        if !self.ends_with_one {
            return false;
        }
        match self.r.bit_pos() {
            Some(Out::Ok(p)) => p < self.nbits,
            _ => false,
        }
    }

    /// number of zero bits of the input ahead of the current position (capped), if the position is known.
    /// Drivers use it to keep reads of codes on arbitrary data inside the code's domain.
    pub fn zeros_ahead(&mut self, cap: u64) -> Option<u64> {
        let p = match self.r.bit_pos() {
            Some(Out::Ok(p)) => p,
            _ => return None,
        };
        let mut n = 0;
        while n < cap {
            let i = p + n;
            if i >= self.nbits {
                return if self.cfg.strict() { Some(n) } else { Some(cap) };
            }
            let byte = self.image[(i / 8) as usize];
            let bit = if self.cfg.le { (byte >> (i % 8)) & 1 } else { (byte >> (7 - i % 8)) & 1 };
            if bit == 1 {
                return Some(n);
            }
            n += 1;
        }
        Some(cap)
    }

    pub fn read_unary(&mut self, tr: &mut Tr) -> Out<u64> {
        let r = self.r.read_unary();
        let e = Ev::new("read_unary").i("o", self.id);
        let e = self.tail(e, &r).u64("v", r.clone().ok().unwrap_or(0));
        tr.emit(e);
        r
    }

    pub fn read_code(&mut self, tr: &mut Tr, c: &CodeSpec, opt: u8) -> Out<u64> {
        let r = self.r.read_code(c, opt);
        let e = Ev::new("read_code").i("o", self.id).code(c, opt);
        let e = self.tail(e, &r).u64("v", r.clone().ok().unwrap_or(0));
        tr.emit(e);
        r
    }

    pub fn read_bytes(&mut self, tr: &mut Tr, k: usize) -> Option<Out<(usize, Vec<u8>)>> {
        let r = self.r.read_bytes(k)?;
        let e = Ev::new("read_bytes").i("o", self.id).i("n", k as i64);
        let (ret, bs) = match &r {
            Out::Ok((n, b)) => (*n as i64, b.clone()),
            _ => (-1, vec![]),
        };
        let e = self.tail(e, &r).i("ret", ret).bytes("bs", &bs);
        tr.emit(e);
        Some(r)
    }

    pub fn set_bit_pos(&mut self, tr: &mut Tr, p: u64) -> Option<Out<()>> {
        let r = self.r.set_bit_pos(p)?;
        let e = Ev::new("set_bit_pos").i("o", self.id).i("p", p as i64);
        let e = self.tail(e, &r);
        tr.emit(e);
        Some(r)
    }

    pub fn try_clone(&mut self, tr: &mut Tr) -> Option<TRd> {
        let r2 = self.r.try_clone()?;
        let id = tr.new_id();
        tr.emit(Ev::new("clone").i("o", self.id).i("o2", id));
        Some(TRd { id, r: r2, cfg: self.cfg.clone(), dead: self.dead, seekable: self.seekable, nbits: self.nbits, ends_with_one: self.ends_with_one, image: self.image.clone() })
    }

    /// forget the object in the trace state
    pub fn drop_obj(self, tr: &mut Tr) {
        tr.emit(Ev::new("drop_reader").i("o", self.id));
    }

    /// reader-side copy (optimised or default, depending on the build)
    pub fn copy_to(&mut self, tr: &mut Tr, w: &mut TW, n: u64) -> Out<()> {
        let (r, side) = self.r.copy_to(&mut *w.w, n);
        if !r.is_ok() {
            self.dead = true;
            w.dead = true;
        }
        let nb = w.w.take_new_bytes();
        let p = self.pos();
        let mut e = Ev::new("copy")
            .s("dir", "to")
            .i("o", self.id)
            .i("ow", w.id)
            .i("n", n as i64)
            .res(&r)
            .s("side", side)
            .i("pos", p)
            .bytes("nb", &nb);
        if let Some(c) = self.r.counter() {
            e = e.i("cnt", c as i64);
        }
        if let Some(c) = w.w.counter() {
            e = e.i("wcnt", c as i64);
        }
        tr.emit(e);
        r
    }

    /// writer-side copy
    pub fn copy_from(&mut self, tr: &mut Tr, w: &mut TW, n: u64) -> Out<()> {
        let (r, side) = w.w.copy_from(&mut *self.r, n);
        if !r.is_ok() {
            self.dead = true;
            w.dead = true;
        }
        let nb = w.w.take_new_bytes();
        let p = self.pos();
        let mut e = Ev::new("copy")
            .s("dir", "from")
            .i("o", self.id)
            .i("ow", w.id)
            .i("n", n as i64)
            .res(&r)
            .s("side", side)
            .i("pos", p)
            .bytes("nb", &nb);
        if let Some(c) = self.r.counter() {
            e = e.i("cnt", c as i64);
        }
        if let Some(c) = w.w.counter() {
            e = e.i("wcnt", c as i64);
        }
        tr.emit(e);
        r
    }
}
