#!/bin/sh
# TLC with a deep Java stack (recursive operators over long bit sequences) on every thread,
# including the main thread that evaluates ASSUMEs.
exec java -Xss1g ${TLC_JAVA_OPTS:-} -XX:+UseSerialGC -cp /opt/veriftools/tla/tla2tools.jar:/opt/veriftools/tla/CommunityModules-deps.jar tlc2.TLC "$@"
