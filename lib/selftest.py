"""./check --selftest : demonstrate that the specification is bound to the code and
that the checks are not vacuous.

 1. trace corruption: accepted traces with one logged field changed / one event
    removed must be rejected at (or right after) that event;
 2. specification mutants: each named defect re-introduced in a copy of the
    specification must produce a TLC counterexample (the invariants can fail);
 3. the trace specification of the adapter configured as the pinned tree behaved
    (single write) must reject the traces of the repaired adapter.
"""
import json
import os
import random
import re
import shutil
import subprocess
import tempfile


def main(ck):
    ok = True
    work = os.path.join(ck.WORK, "selftest")
    shutil.rmtree(work, ignore_errors=True)
    os.makedirs(work)
    vh = ck.build(("release", ""))

    def note(name, good, extra=""):
        nonlocal ok
        ok = ok and good
        print("%-58s %s %s" % (name, "ok" if good else "FAILED", extra), flush=True)

    # ---------------------------------------------------------------- 1. trace corruption
    base = os.path.join(work, "base.ndjson")
    ck.vh(vh, ["record", "hist", "--out", base, "--seed", "7", "--histories", "3", "--len", "30"])
    r = ck.run_tv("Trace_BitStream", base, "st_base")
    note("baseline trace accepted", r["accepted"])
    lines = open(base).read().splitlines()
    rnd = random.Random(1)

    def corrupt(name, pred, mut):
        idxs = [i for i, l in enumerate(lines) if pred(json.loads(l))]
        if not idxs:
            note("corruption %s (no candidate event)" % name, False)
            return
        i = idxs[rnd.randrange(len(idxs))]
        out = list(lines)
        e = json.loads(out[i])
        e2 = mut(e)
        if e2 is None:
            del out[i]
        else:
            out[i] = json.dumps(e2)
        p = os.path.join(work, "corrupt_%s.ndjson" % name)
        open(p, "w").write("\n".join(out) + "\n")
        r = ck.run_tv("Trace_BitStream", p, "st_" + name)
        good = (not r["accepted"]) and abs(r.get("rejected_at", -99) - (i + 1)) <= 3
        note("corruption %-28s at event %d" % (name, i + 1), good, "rejected at %s" % r.get("rejected_at"))

    def flip_v(e):
        e["v"][7] ^= 1
        return e

    def bump(field):
        def f(e):
            e[field] += 1
            return e
        return f

    def flip_nb(e):
        e["nb"][0] ^= 0x10
        return e

    corrupt("read value bit", lambda e: e["op"] == "read_bits" and e["res"] == "ok" and e["n"] >= 1, flip_v)
    corrupt("write return value", lambda e: e["op"] == "write_bits" and e["res"] == "ok", bump("ret"))
    corrupt("delivered byte", lambda e: e["op"] in ("write_bits", "write_code") and len(e.get("nb", [])) > 0, flip_nb)
    corrupt("reported position", lambda e: e["op"] == "read_code" and e.get("pos", -1) >= 0, bump("pos"))
    corrupt("dropped write event", lambda e: e["op"] == "write_unary", lambda e: None)
    corrupt("code value", lambda e: e["op"] == "read_code" and e["res"] == "ok", flip_v)
    corrupt("ok turned into err", lambda e: e["op"] == "read_bits" and e["res"] == "ok",
            lambda e: dict(e, res="err"))

    corrupt("backend flush not reached", lambda e: e["op"] == "flush" and e["res"] == "ok" and e.get("bfl", 0) >= 1,
            lambda e: dict(e, bfl=0))

    # the stateless parts: implied distribution (probabilities are exact doubles), vbyte io
    pure = os.path.join(work, "pure.ndjson")
    ck.vh(vh, ["record", "changepoints", "--out", pure, "--seed", "7"])
    r = ck.run_tv("Trace_Pure", pure, "st_pure")
    note("baseline change-point trace accepted", r["accepted"])
    plines = open(pure).read().splitlines()

    def corrupt_pure(name, mut, pred=lambda e: True):
        idxs = [i for i, l in enumerate(plines) if '"op":"implied"' in l and len(json.loads(l)["probs"]) >= 3 and pred(json.loads(l))]
        i = idxs[rnd.randrange(len(idxs))]
        out = list(plines)
        out[i] = json.dumps(mut(json.loads(out[i])))
        pth = os.path.join(work, "corrupt_pure_%s.ndjson" % name.replace(" ", "_"))
        open(pth, "w").write("\n".join(out) + "\n")
        r = ck.run_tv("Trace_Pure", pth, "st_pure_" + name.replace(" ", "_"))
        good = (not r["accepted"]) and abs(r.get("rejected_at", -99) - (i + 1)) <= 1
        note("corruption %-28s at event %d" % (name, i + 1), good, "rejected at %s" % r.get("rejected_at"))

    def prob_exp(e):
        e["probs"][1][1] += 1
        return e

    def sample_out(e):
        e["samples"][0] = e["nx"]        # the first value whose codeword is longer than 128 bits
        return e

    def drop_prob(e):
        e["probs"].pop()
        return e
    corrupt_pure("probability doubled", prob_exp)
    corrupt_pure("sample with a codeword over 128 bits", sample_out, lambda e: e["nxt"] == "some")
    corrupt_pure("one bracket missing", drop_prob)

    # ---------------------------------------------------------------- 2. specification mutants
    def mutant(name, module, cfg_text, edits, expect="violated"):
        d = tempfile.mkdtemp(prefix="specmut_", dir=work)
        for f in os.listdir(ck.SPEC):
            if f.endswith(".tla") or f.endswith(".cfg"):
                shutil.copy(os.path.join(ck.SPEC, f), d)
        for fname, old, new in edits:
            p = os.path.join(d, fname)
            s = open(p).read()
            if old not in s:
                note("spec mutant %s: pattern not found in %s" % (name, fname), False)
                return
            open(p, "w").write(s.replace(old, new, 1))
        open(os.path.join(d, "m.cfg"), "w").write(cfg_text)
        cmd = ck.tlc_cmd(["-Xmx4g"], ["-workers", "4", "-metadir", os.path.join(d, "md"), "-cleanup", "-noGenerateSpecTE",
                                      "-config", "m.cfg", module + ".tla"])
        p = subprocess.run(cmd, cwd=d, stdout=subprocess.PIPE, stderr=subprocess.STDOUT, text=True, timeout=1800)
        bad = bool(re.search(r"is violated|Assumption .* is false|Temporal propert(ies were|y \S+ was) violated", p.stdout))
        note("spec mutant %-45s" % name, bad if expect == "violated" else not bad)
        shutil.rmtree(d, ignore_errors=True)

    wcfg = 'SPECIFICATION Spec\nCONSTANTS W = 8\n E = "%s"\n Depth = 1\n Full = TRUE\nINVARIANTS Refines RepOK\nCHECK_DEADLOCK FALSE\n'
    rcfg = ('SPECIFICATION Spec\nCONSTANTS W = 8\n E = "%s"\n Strict = FALSE\n Pat = 4\n NW = 5\n Depth = %d\n Full = TRUE\n'
            ' Data <- DataConst\nINVARIANTS Refines\nCHECK_DEADLOCK FALSE\n')
    mutant("writer BE fast path without the mask", "MC_BufWriter", wcfg % "be",
           [("BufWriterImpl.tla", "Res(Or(Shl(s.buf, n), And(C(v), Not(Shl(VOnes(W), n)))),", "Res(Or(Shl(s.buf, n), C(v)),")])
    mutant("writer LE spill: rotate by tw + 1", "MC_BufWriter", wcfg % "le",
           [("BufWriterImpl.tla", "Res(RotR(C(vk), tw), W - (tw % W)", "Res(RotR(C(vk), tw + 1), W - (tw % W)")])
    mutant("reader BE copy_to keeps copied bits (pinned defect)", "MC_BufReader", rcfg % ("be", 2),
           [("BufReaderImpl.tla", "buf1 == Shl(Shr(rot, fb), fb)", "buf1 == rot")])
    mutant("reader LE slow read_bits: final shift off by one", "MC_BufReader", rcfg % ("le", 1),
           [("BufReaderImpl.tla", "ELSE Res(Shr(Up(wlast), n1), bib2, s.wpos + k + 1, result, FALSE,\n                      \\/ ~(bir < 64)",
             "ELSE Res(Shr(Up(wlast), n1 - 1), bib2, s.wpos + k + 1, result, FALSE,\n                      \\/ ~(bir < 64)")])
    mutant("reader peek: refill condition >= instead of >", "MC_BufReader", rcfg % ("be", 1),
           [("BufReaderImpl.tla", "LET r == IF n > s.bib THEN RefillBE(s)", "LET r == IF n >= s.bib + 2 THEN RefillBE(s)")])
    mutant("unbuffered reader: unary boundary <= instead of <", "MC_BitReader",
           'SPECIFICATION Spec\nCONSTANTS E = "le"\n Strict = FALSE\n Pat = 2\n NW = 3\n Data <- DataConst\nINVARIANT Refines\nCHECK_DEADLOCK FALSE\n',
           [("BitReaderImpl.tla", "IF z0 < 64 - off THEN Res(s.idx + z0 + 1, wp + 1, z0, FALSE, FALSE)",
             "IF z0 <= 64 - off THEN Res(s.idx + z0 + 1, wp + 1, z0, FALSE, FALSE)")])
    mutant("adapter: single write (pinned defect)", "MC_Adapter",
           "SPECIFICATION Spec\nCONSTANTS WBytes = 4\n NWordsC = 2\n RetryWrites = FALSE\nINVARIANTS WLossFree RExact\nCHECK_DEADLOCK FALSE\n", [])
    mutant("change points: step wraps (pinned defect)", "MC_ChangePoints",
           "SPECIFICATION Spec\nCONSTANTS B = 4\n MaxSteps = 2\n V0 = 3\n StopOnOverflow = FALSE\n StepSet <- AllSteps\n"
           "INVARIANTS YieldsOK NoMiss\nPROPERTY Terminates\nCHECK_DEADLOCK FALSE\n", [])
    mutant("statistics: updates without the lock", "MC_StatsThreads",
           "SPECIFICATION Spec\nCONSTANTS Threads = {1,2}\n PerThread = 2\n UseLock = FALSE\nINVARIANTS Exact\nCHECK_DEADLOCK FALSE\n", [])
    mutant("codebook: gamma LE field not reversed", "MC_Codes", "SPECIFICATION Spec\nCONSTANT MaxSmall = 20\n",
           [("Codes.tla", "EncGamma(E, n) == LET m == Inc(n) IN Zeros(Len(m) - 1) \\o <<1>> \\o TailField(E, m)",
             "EncGamma(E, n) == LET m == Inc(n) IN Zeros(Len(m) - 1) \\o <<1>> \\o TailField(\"be\", m)")])
    mutant("word backend: strict read moves the cursor on error", "MC_WordBackend",
           'SPECIFICATION Spec\nCONSTANTS Kind = "strict"\n MaxLen = 2\n MaxCur = 4\n Zero <- ZeroTok\nVIEW View\nINVARIANTS Inv Deterministic\nCHECK_DEADLOCK FALSE\n',
           [("WordBackend.tla", "    ELSE res = \"err\" /\\ b2 = b                       \\* the cursor does not move",
             "    ELSE res = \"err\" /\\ b2 = [b EXCEPT !.cur = @ + 1]")])

    # ---------------------------------------------------------------- 3. adapter trace vs pinned semantics
    tr = os.path.join(work, "adapter.ndjson")
    ck.vh(vh, ["record", "adapter", "--out", tr, "--depth", "2", "--nrand", "20"])
    r = ck.run_tv("Trace_Adapter", tr, "st_adapter")
    note("adapter trace accepted by the repaired model", r["accepted"])
    d = tempfile.mkdtemp(prefix="adpin_", dir=work)
    for f in os.listdir(ck.SPEC):
        if f.endswith(".tla") or f.endswith(".cfg"):
            shutil.copy(os.path.join(ck.SPEC, f), d)
    s = open(os.path.join(d, "Trace_Adapter.cfg")).read().replace("RetryWrites = TRUE", "RetryWrites = FALSE")
    open(os.path.join(d, "Trace_Adapter.cfg"), "w").write(s)
    env = dict(os.environ, TRACE=tr)
    p = subprocess.run(ck.tlc_cmd(["-Xmx3g", "-Dtlc2.tool.queue.IStateQueue=StateDeque"],
                                  ["-workers", "1", "-metadir", os.path.join(d, "md"), "-cleanup", "-noGenerateSpecTE",
                                   "-config", "Trace_Adapter.cfg", "Trace_Adapter.tla"]),
                       cwd=d, env=env, stdout=subprocess.PIPE, stderr=subprocess.STDOUT, text=True, timeout=900)
    note("adapter trace rejected by the pinned-tree model", "REJECTED" in p.stdout)
    shutil.rmtree(d, ignore_errors=True)

    print("SELFTEST", "PASSED" if ok else "FAILED")
    return 0 if ok else 1
