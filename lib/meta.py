HOOK_COMMITS = []
NOTES = ("All 20 properties are decided with the TLA+ specification in spec/: TLC model-checks the design-level and "
         "implementation-shaped modules (MC_*), generates histories to every hidden state (Gen_*), and validates "
         "traces of the real library recorded by harness/ against the abstract machines (Trace_*). No source hook "
         "was needed: everything is observed through the public API (the guard is passed to the build but no code "
         "in /repo is conditional on it). Eleven genuine defects found on the pinned tree were repaired with fix: "
         "commits in /repo (known_findings.json). See DESIGN.md.")

TV_NOTE = ("Trusted: TLC and the TLA+ specification as the statement of intent (spec/BitSeqs, Codes, BitStream and the "
           "module named in the text); the harness only drives the library and logs arguments and results (it computes "
           "no expectation), JSON I/O. Bounded: histories, grids and schedules are finite samples of the quantifier, "
           "listed in the evidence coverage; cached model-checking instances are reported separately from live ones.")

T_TV = "TLA+ spec + TLC model checking + TLC trace validation of recorded executions"
T_GEN = "TLA+ impl-shaped model checked by TLC; TLC-generated state histories replayed on the code; TLC trace validation"


def m(text, ref, technique=T_TV, note=TV_NOTE):
    return dict(text=text, design_ref=ref, note=note, technique=technique)


META = {
    "C01": m("TLC proves, at all five real word sizes and both endiannesses, that every code path of the "
             "implementation-shaped writer model refines the abstract append-only writer from every space_left state; "
             "TLC-generated histories bring real writers of every configuration (word size x backend kind) into every "
             "space_left state where every operation of the alphabet is executed; every call (with the bytes the "
             "backend received) is validated by TLC against BitStream: layout contract, dirty high bits ignored, "
             "append-only delivery, flush/close padding, counts and idempotence, final storage = delivered bytes.",
             "DESIGN.md §7 C01", T_GEN),
    "C02": m("TLC proves on the implementation-shaped reader model (u8..u64 words, zero-extended and strict backends) that "
             "every operation from every (cursor, fill level) state returns what the abstract reader returns and keeps "
             "the buffer clean; TLC-generated histories reach every fill level on real readers of all 56 configurations "
             "(buffered u8..u64 over six backends, unbuffered over four) where reads, repeated peeks, skip-after-peek, "
             "skips, unary reads and clones are executed with a refill-forcing continuation; TLC validates every event "
             "against the byte image.", "DESIGN.md §7 C02", T_GEN),
    "C03": m("Every read event of concatenated code streams and offset sweeps (all families, parameters up to 63 / "
             "2^64-1, values at every power of two +-1 and domain maxima, every table option, random writer and reader "
             "configurations) is validated by TLC against the independently written prefix decoder Codes!Dec on the "
             "recorded byte image, including the position after the codeword; TLC also checks the round-trip and "
             "prefix-freeness theorems of the codebook.", "DESIGN.md §7 C03"),
    "C04": m("Every code x parameter x value of the grids is written alone at a word boundary; TLC compares the bytes "
             "the backend received with the codeword computed by Codes!Enc, the executable transcription of the "
             "documented definitions (including the LE conventions), through the layout contract.", "DESIGN.md §7 C04"),
    "C05": m("Every look-ahead pattern of the three decoding tables (a rotating 1/16 in quick, all in thorough) at "
             "many alignments, with and without an extra refill, is decoded with every table option on clones and "
             "validated by TLC against Codes!Dec; every encoding/length table entry is validated against Enc/CLen; "
             "the reader model's peek / skip-after-peek discipline is model-checked.", "DESIGN.md §7 C05", T_GEN),
    "C06": m("len events of every length function variant and dispatch path, the count returned by every write and the "
             "advance of every read are compared by TLC with the closed form Codes!CLen, itself proved equal to "
             "Len(Enc) on the grids by TLC.", "DESIGN.md §7 C06"),
    "C07": m("The position reported after every call of every schedule is compared with the abstract position; from "
             "every fill state a seek to every target followed by a continuation is validated by TLC (SeekEquivalence), "
             "on all seekable configurations including Cursor/BufReader through the byte adapter; the reader model's "
             "set_bit_pos is model-checked for every target.", "DESIGN.md §7 C07", T_GEN),
    "C08": m("From every source fill state (including more than a word buffered) and random destination fill levels, "
             "copy_to and copy_from of n around every boundary followed by continuations on both streams are validated "
             "by TLC (CopyStep), in the default and in the no_copy_impls build; the optimised copy paths of the reader "
             "and writer models are model-checked against the abstract copy.", "DESIGN.md §7 C08", T_GEN),
    "C09": m("Valid streams truncated after every backend word are read by every strict configuration (TLC demands Ok "
             "with the right value for items inside the data and Err for the first item needing a missing bit) and by "
             "zero-extended readers (never Err, zeros); the strict reader model is model-checked for the same rule.",
             "DESIGN.md §7 C09", T_GEN),
    "C10": m("The whole identifier space (51 constants by name, every enumeration variant with parameters 0..12 and "
             "larger ones) through every dispatcher kind x {write, read, len} x both endiannesses: the trace names the "
             "identifier, TLC resolves the name and compares bytes, values, positions and lengths with the named code.",
             "DESIGN.md §7 C10"),
    "C11": m("TLC explores every fault schedule of the byte stream on the adapter model (LossFree, ReadExact); the real "
             "adapter runs over fault-injecting Read/Write for every schedule up to a depth (u8..u32), every single "
             "fault (u64, u128) and random schedules, and every call into the byte stream and adapter return is "
             "validated by TLC against the model; bit streams through the adapter (over a sink that takes 1..5 bytes per "
             "call) are validated like memory backends, a successful flush must reach the backend's flush(), and seeks "
             "are checked from byte positions inside a word (after a transfer that failed half way).",
             "DESIGN.md §7 C11", "TLA+ fault model checked by TLC (all schedules) + TLC trace validation of fault-injected runs"),
    "C12": m("std::io::Write::write of 0..40 bytes from every space_left state of every writer configuration and "
             "std::io::Read::read of 0..40 bytes from every fill state of every reader are validated by TLC "
             "(WriteBytesStep / ReadBytesStep: bytes in stream order, whole slice reported); the writer model's "
             "io::Write path is model-checked at all word sizes.", "DESIGN.md §7 C12", T_GEN),
    "C13": m("TLC explores the complete state graph of the four word streams over small arrays (cursor invariants, "
             "determinism) and emits one history per state; every state x every call, every call sequence of bounded "
             "length and long random sequences are executed on the real types (u8..u128, owned/borrowed) and validated "
             "by TLC against WordBackend; positions up to 2^64-1 (kept as bit sequences) are exact on the zero-extended "
             "reader and rejected without moving by the others.", "DESIGN.md §7 C13"),
    "C14": m("Random histories through CountBitWriter/Reader, DbgBitWriter/Reader and their composition; values, bytes, "
             "positions and the public counter after every call (including skip-after-peek based codes, flushes and "
             "copies, wrappers created on a reader that is not at bit 0, and the counter after a copy that failed because "
             "the source ran out) are validated by TLC against the abstract machine's count.", "DESIGN.md §7 C14"),
    "C15": m("TLC explores every interleaving of threads updating through the lock; snapshots of all 55 tracked totals, "
             "merges in every style and order, wrapper-observed writes/reads, 2/4/8 real threads and best_code answers "
             "are validated by TLC, which recomputes the totals with Codes!CLen in exact arithmetic; five instantiations "
             "of the const parameters, uniform and geometric data so that every tracked Golomb code wins somewhere.", "DESIGN.md §7 C15"),
    "C16": m("Display->FromStr for every variant x parameter, token-level malformed strings, identifier round trips by "
             "name, out-of-range identifiers and equality => identical codewords (malformed text: unknown names, missing, "
             "empty, negative, non-numeric, unterminated and overflowing parameters just above usize::MAX) are validated by TLC against "
             "Dispatch (grammar on tokens, ConstCodeOf, SameCodewords).", "DESIGN.md §7 C16"),
    "C17": m("TLC checks bijection/inverse/formula over the whole 8-, 12-, 16-bit types and the agreement of the "
             "two's-complement vector forms; real to_nat/to_int on all 8/16-bit values and on neighbourhoods of 0, MIN, "
             "MAX and every power of two for wider types are validated by TLC with the vector forms; the 32-bit types "
             "are swept exhaustively (all 2^32 values each way), the observed function being logged run-length "
             "encoded and validated segment by segment.", "DESIGN.md §7 C17, §13.5"),
    "C18": m("Byte-level VByte writes/reads (all entry points) on dense, boundary and random values and every "
             "terminated byte string of bounded length are validated by TLC against Codes (bytes, values, lengths, "
             "completeness), into plain, short-writing and bounded sinks; the bit-stream VByte codes are validated against "
             "the same definitions, also at every split point of the end of strict streams.", "DESIGN.md §7 C18"),
    "C19": m("The same drivers in the build variants {release, dev} x {default, checks, no_copy_impls, both}; every trace "
             "must be a behaviour of the same specification, in which only write_bits may panic and exactly when the "
             "build checks and the argument is dirty (the dirty driver issues every n x every single dirty bit).",
             "DESIGN.md §7 C19"),
    "C20": m("TLC checks safety and termination of the iterator model for every monotone step function at small widths; "
             "real length functions scanned below 2^upto are monotone with change points validated against CLen; the real "
             "iterator on every library length function and on synthetic step functions (watchdog on evaluations) is "
             "validated yield by yield, and Kraft's inequality is evaluated by TLC in exact arithmetic; the implied "
             "distribution (128-bit cut, bracket probabilities as exact doubles, samples) is validated too.", "DESIGN.md §7 C20"),
}
