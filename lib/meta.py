HOOK_COMMITS = []
NOTES = ("All properties are decided by the TLA+ specification in spec/: TLC model-checks the design-level "
         "modules and validates traces of the real library (recorded by harness/) against the abstract machine. "
         "See DESIGN.md.")

TV_NOTE = ("Trusted: TLC, the TLA+ specification as the statement of intent (spec/BitSeqs, Codes, BitStream), "
           "the harness's event logging (it reports arguments and results, it computes no expectation), JSON I/O. "
           "Bounded: histories and grids are finite samples of the quantifier (see evidence coverage).")

META = {
    "C01": dict(
        text="Every public call of recorded executions of the real writers (all word sizes, backends, both "
             "endiannesses) is validated by TLC as a step of the abstract BitStream machine: delivered bytes must "
             "equal the layout contract applied to the bits written, delivery is append-only, flush/close pad "
             "with zeros, report pending bits and are idempotent.",
        design_ref="DESIGN.md §7 C01",
        note=TV_NOTE,
        technique="TLA+ spec + TLC trace validation of recorded executions",
    ),
}
