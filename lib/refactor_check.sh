#!/bin/bash
# refactor_check.sh <ID> [PROP ...]: apply a behaviour-preserving refactoring (refactorings/<ID>/patch.diff)
# to /repo, run the quick checks (all 20 by default), undo.  Any VIOLATION is a false alarm of the machinery.
ID=$1; shift
PROPS=${@:-C01 C02 C03 C04 C05 C06 C07 C08 C09 C10 C11 C12 C13 C14 C15 C16 C17 C18 C19 C20}
D=/verif/refactorings/$ID
cd /verif
[ -z "$(git -C /repo status --porcelain)" ] || { echo "/repo not clean"; exit 2; }
git -C /repo apply $D/patch.diff || { echo "patch does not apply"; exit 2; }
: > $D/result.txt
for P in $PROPS; do
  S=$(date +%s)
  OUT=$(./check $P 2>&1 | grep -E "VIOLATION|KNOWN-FINDING|TOOL-ERROR" | head -3)
  RC=$?
  E=$(date +%s)
  echo "$ID -> check $P ($((E-S))s): ${OUT:-silent}" | tee -a $D/result.txt
done
git -C /repo checkout -- .
