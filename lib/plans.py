"""Per-property verification plans: which TLC model-checking instances, which
drivers (record) / schedules (exec) and which trace specification."""
import os

ROOT = os.path.dirname(os.path.dirname(os.path.abspath(__file__)))
GEN = os.path.join(ROOT, "gen")

SETUP_VARIANTS = [("release", ""), ("release", "no_copy_impls"), ("release", "checks"), ("dev", ""),
                  ("dev", "checks,no_copy_impls")]

REL = ("release", "")
DEV = ("dev", "")


def shards(name, driver, n, seed, args, module="Trace_BitStream", variant=REL):
    out = []
    for i in range(n):
        a = dict(args)
        a["seed"] = seed * 1000 + i
        out.append(dict(kind="record", name="%s-%d" % (name, i), driver=driver, args=a, module=module,
                        variant=variant))
    return out


def cfg_shards(name, driver, nshards, seed, args, pick=None, module="Trace_BitStream", variant=REL):
    """one unit per configuration shard (shard i handles configurations i, i+n, ...)"""
    out = []
    for i in range(nshards):
        if pick is not None and i not in pick:
            continue
        a = dict(args)
        a.update(seed=seed * 1000 + i, shard=i, nshards=nshards)
        out.append(dict(kind="record", name="%s-%d" % (name, i), driver=driver, args=a, module=module,
                        variant=variant))
    return out


# ------------------------------------------------------------------ MC instances

def mc_writer(w, e, depth, full, live=False):
    return dict(live=live, name="bufwriter_w%d_%s_d%d_%s" % (w, e, depth, "full" if full else "bnd"), module="MC_BufWriter",
                workers=4, timeout=3600,
                cfg_text='SPECIFICATION Spec\nCONSTANTS W = %d\n E = "%s"\n Depth = %d\n Full = %s\n'
                         'INVARIANTS Refines RepOK\nCHECK_DEADLOCK FALSE\n' % (w, e, depth, "TRUE" if full else "FALSE"))


def mc_reader(w, e, strict, pat, depth, full, live=False):
    return dict(live=live, heavy=(full and w >= 32), name="bufreader_w%d_%s_%s_p%d_d%d_%s" % (w, e, "strict" if strict else "inf", pat, depth, "full" if full else "bnd"),
                module="MC_BufReader", workers=4, timeout=7200,
                cfg_text='SPECIFICATION Spec\nCONSTANTS W = %d\n E = "%s"\n Strict = %s\n Pat = %d\n NW = 5\n Depth = %d\n'
                         ' Full = %s\n Data <- DataConst\nINVARIANTS Refines\nCHECK_DEADLOCK FALSE\n'
                         % (w, e, "TRUE" if strict else "FALSE", pat, depth, "TRUE" if full else "FALSE"))


def mc_bitstream(e, strict):
    return dict(name="bitstream_%s_%s" % (e, "strict" if strict else "inf"), module="MC_BitStream", workers=4, timeout=1800, live=True,
                cfg_text='SPECIFICATION Spec\nCONSTANTS EC = "%s"\n Strict = %s\n MaxOps = 3\n DataBytes <- DataConst\n Src <- SrcConst\n'
                         'INVARIANTS Canonical CountsNoPadding SeekEquivalence\nPROPERTY AppendOnly\nCHECK_DEADLOCK FALSE\n'
                         % (e, "TRUE" if strict else "FALSE"))


def writer_mcs(tier):
    out = [mc_bitstream("le", True), mc_bitstream("be", False)]
    for e in ("be", "le"):
        out.append(mc_writer(8, e, 1, True, live=True))
        out.append(mc_writer(8, e, 2, True))
        for w in (16, 32, 64, 128):
            out.append(mc_writer(w, e, 1, True))
    return out


def mc_bitreader(e, strict, pat=3):
    return dict(name="bitreader_%s_%s_p%d" % (e, "strict" if strict else "inf", pat), module="MC_BitReader", workers=4, timeout=3600,
                cfg_text='SPECIFICATION Spec\nCONSTANTS E = "%s"\n Strict = %s\n Pat = %d\n NW = 3\n Data <- DataConst\n'
                         'INVARIANT Refines\nCHECK_DEADLOCK FALSE\n' % (e, "TRUE" if strict else "FALSE", pat))


def reader_mcs(tier):
    out = [mc_bitreader(e, st) for e in ("be", "le") for st in (False, True)]
    if tier == "thorough":
        out += [mc_bitreader(e, st, p) for e in ("be", "le") for st in (False, True) for p in (1, 2)]
    for e in ("be", "le"):
        for strict in (False, True):
            out.append(mc_reader(8, e, strict, 4, 1, True, live=True))
            out.append(mc_reader(8, e, strict, 4, 2, True))
            out.append(mc_reader(16, e, strict, 4, 1, True))
            for w in (32, 64):
                out.append(mc_reader(w, e, strict, 4, 1, tier == "thorough"))
        if tier == "thorough":
            for pat in (1, 2, 3):
                out.append(mc_reader(8, e, False, pat, 2, True))
                out.append(mc_reader(16, e, True, pat, 1, True))
    return out


# ------------------------------------------------------------------ plans

NW = 40   # writer configurations
NR = 56   # reader configurations


def pick_cfgs(n, k, seed):
    """k configuration shards out of n, rotating with the seed so that repeated quick runs cover all"""
    if k >= n:
        return None
    return {(seed * 7 + i * (n // k) + (seed % max(1, n // k)) + (seed // 2) % max(1, n // k)) % n for i in range(k)}


def pick_strat(seed, per_class):
    """reader configurations, stratified: per_class backends (rotating with the seed) for each of
    (endianness) x (buffered over 8/16/32/64-bit words, unbuffered)"""
    out = set()
    for e in range(2):
        for c in range(5):
            nb = 6 if c < 4 else 4
            base = e * 28 + (c * 6 if c < 4 else 24)
            for j in range(min(per_class, nb)):
                out.add(base + (seed + c + e + j * max(1, nb // per_class)) % nb)
    return out


def c01(tier, seed):
    q = tier == "quick"
    units = cfg_shards("wstates", "wstates", NW, seed,
                       dict(paths=os.path.join(GEN, "writer_paths.ndjson"), ops="c01", full=0 if q else 1))
    units += shards("hist", "hist", 6 if q else 32, seed, dict(histories=5 if q else 20, len=40))
    units += shards("wfull", "wfull", 2 if q else 8, seed, dict(rounds=6 if q else 30))
    # the debug profile (debug assertions guard the 64-bit limits of the primitives): the widest words
    units += cfg_shards("wstates-dev", "wstates", NW, seed + 1,
                        dict(paths=os.path.join(GEN, "writer_paths.ndjson"), ops="c01", full=0),
                        pick={16, 37} if q else {16, 17, 18, 19, 36, 37, 38, 39, 12, 32}, variant=DEV)
    return dict(
        needs_gen=True,
        mc=writer_mcs(tier),
        rule="(a) TLC model-checks the implementation-shaped writer (every space_left x garbage regime x "
             "operation, all five word sizes) against the abstract writer; (b) for every space_left state "
             "(TLC-generated shortest history) x every operation of the alphabet, on real writers of every "
             "configuration; (c) random histories replicated on all word sizes. Every call is a trace event "
             "validated by TLC against BitStream. distinct = (configuration, space_left, operation kind).",
        units=units,
    )


def c02(tier, seed):
    q = tier == "quick"
    if q:
        two = pick_cfgs(NR, 12, seed)
        units = cfg_shards("rstates", "rstates", NR, seed, dict(paths=RP, ops="c02", full=0, images=2), pick=two)
        units += cfg_shards("rstates", "rstates", NR, seed, dict(paths=RP, ops="c02", full=0, images=1),
                            pick=set(range(NR)) - two)
    else:
        units = cfg_shards("rstates", "rstates", NR, seed, dict(paths=RP, ops="c02", full=1, images=4))
    units += shards("hist", "hist", 6 if q else 32, seed, dict(histories=5 if q else 20, len=40))
    # the debug profile: 64-bit words (double-width buffer) and the unbuffered reader, both endiannesses
    units += cfg_shards("rstates-dev", "rstates", NR, seed + 1, dict(paths=RP, ops="c02", full=0, images=1),
                        pick={18, 46, 24, 52} if q else {18, 19, 46, 47, 24, 25, 52, 53, 12, 40}, variant=DEV)
    return dict(
        needs_gen=True,
        mc=reader_mcs(tier),
        rule="(a) TLC model-checks the implementation-shaped buffered reader (every cursor x fill level x "
             "operation) against the abstract reader; (b) every fill state (TLC-generated shortest history) x "
             "every operation + continuation on real readers of every configuration and several images; "
             "(c) random histories. distinct = (configuration, fill level, operation kind).",
        units=units,
    )


def code_units(mode, tier, seed, n_quick=15, n_thorough=60):
    q = tier == "quick"
    n = n_quick if q else n_thorough
    return cfg_shards("codes-" + mode, "codes", n, seed, dict(mode=mode, full=0 if q else 1))


def edge_units(tier, seed, variant=REL, n=6):
    return cfg_shards("codes-edges", "codes", n, seed, dict(mode="edges", full=0), variant=variant)


def enc_table_units(tier, seed, variant=REL):
    return cfg_shards("codes-enc-tables", "codes", 6, seed, dict(mode="enc_tables", full=0), variant=variant)


MC_CODES = dict(name="codes_theorems", module="MC_Codes", cfg="MC_Codes.cfg", workers=1, timeout=3600)


def c03(tier, seed):
    q = tier == "quick"
    units = code_units("concat", tier, seed) + code_units("offsets", tier, seed) + edge_units(tier, seed)
    units += shards("hist", "hist", 4 if q else 16, seed + 17, dict(histories=5 if q else 20, len=40))
    # every entry of the decoding tables once (a wrong entry is a wrong round trip for a narrow set of inputs)
    units += cfg_shards("tables", "tables", NR, seed, dict(full=0, frac=64), pick=pick_from(TABLE_CFGS, 4 if q else 8, seed + 4))
    # the debug profile (debug assertions and overflow checks inside the library)
    units += cfg_shards("codes-concat-dev", "codes", 15, seed + 2, dict(mode="concat", full=0), pick=pick_cfgs(15, 2 if q else 6, seed), variant=DEV)
    return dict(
        mc=[MC_CODES],
        rule="(a) TLC checks the codebook theorems (Dec(Enc(n) o tail) = n, position = CLen, prefix-freeness) on "
             "grids; (b) for every code x parameter x value of the grids: concatenated streams with raw fields "
             "written by random writer configurations and read back by random reader configurations with every "
             "table option (clones at the same position); (c) offset sweep o in 0..2W+1 with three kinds of "
             "tails. Every read event is validated by TLC against Codes!Dec on the recorded byte image. "
             "distinct = (family, parameter, value).",
        units=units,
    )


def c04(tier, seed):
    return dict(
        mc=[MC_CODES],
        rule="every code x parameter x value of the grids written alone at a word boundary by writers of "
             "several/all word sizes with every table option; TLC compares the delivered bytes with "
             "Codes!Enc (the published definition) through the layout contract. distinct = (family, parameter, value).",
        units=code_units("alone", tier, seed) + edge_units(tier, seed + 1) + enc_table_units(tier, seed),
    )


def c06(tier, seed):
    return dict(
        mc=[MC_CODES],
        rule="length functions (every table variant, enum dispatch) logged as len events and compared by TLC "
             "with Codes!CLen; the value returned by each write and the advance of each read are compared with "
             "the same closed form in the write/read events. distinct = (family, parameter, value).",
        units=code_units("alone", tier, seed + 1) + code_units("concat", tier, seed + 1, 6, 30) + edge_units(tier, seed + 2)
              + enc_table_units(tier, seed + 1)
              # bits consumed by every entry of the decoding tables
              + cfg_shards("tables", "tables", NR, seed, dict(full=0, frac=64), pick=pick_from(TABLE_CFGS, 4 if tier == "quick" else 8, seed + 6)),
    )


RP = os.path.join(GEN, "reader_paths.ndjson")
WP = os.path.join(GEN, "writer_paths.ndjson")


# reader configurations the tables driver works on (clonable and seekable: inf, strict, cursor backends)
TABLE_CFGS = [i for i in range(NR) if (i % 28 < 24 and (i % 28) % 6 in (0, 1, 4)) or (i % 28 >= 24 and (i % 28) - 24 in (0, 1, 3))]


def pick_from(lst, k, seed):
    if k >= len(lst):
        return set(lst)
    return {lst[(seed * 5 + i * len(lst) // k) % len(lst)] for i in range(k)}


def c05(tier, seed):
    q = tier == "quick"
    units = cfg_shards("tables", "tables", NR, seed, dict(full=0 if q else 1, frac=16 if q else 1),
                       pick=pick_from(TABLE_CFGS, 10 if q else 16, seed))   # thorough: 16 of the 30, every pattern x every alignment
    # fewer bits than the index width before a strict end: every strict configuration (a stride-2 pick of
    # the 14 shards always left out the strict memory readers, which sit on odd shards)
    units += cfg_shards("eof", "eof", 14, seed + 3, dict(streams=1 if q else 4, len=16 if q else 40, cutstep=1))
    units += cfg_shards("crossing", "crossing", 14, seed + 1, dict())
    units += enc_table_units(tier, seed + 2)                   # encode / length tables: every entry, every option
    units += code_units("alone", tier, seed + 2, 6, 30)
    units += code_units("concat", tier, seed + 2, 6, 30)       # defaults and every table option on read
    return dict(
        needs_gen=True,
        mc=[MC_CODES] + [m for m in reader_mcs("quick") if "_d1_" in m["name"]],
        rule="every look-ahead pattern of the gamma/delta/zeta3 decoding tables (quick: 1/16 of them, rotating "
             "with the seed) x alignments x {no extra refill, extra look-ahead refill} x every table option the "
             "reader was not diagnosed as unable to serve, decoded on clones; every value up to the encoding / "
             "length table limits written with every option; all validated by TLC against Codes!Dec/Enc/CLen. "
             "distinct = (table, endianness, pattern, word size, variant, alignment).",
        units=units,
    )


def c07(tier, seed):
    q = tier == "quick"
    if q:
        two = pick_cfgs(NR, 12, seed)
        units = cfg_shards("seeks", "rstates", NR, seed, dict(paths=RP, ops="c07", full=0, images=2), pick=two)
        units += cfg_shards("seeks", "rstates", NR, seed, dict(paths=RP, ops="c07", full=0, images=1), pick=set(range(NR)) - two)
    else:
        units = cfg_shards("seeks", "rstates", NR, seed, dict(paths=RP, ops="c07", full=1, images=3))
    units += shards("hist", "hist", 6 if q else 24, seed + 3, dict(histories=5 if q else 20, len=40))
    units += code_units("offsets", tier, seed + 3, 8, 30)
    # positions after look-aheads that fail or run past the data: every code placed j bits before the end
    units += cfg_shards("crossing", "crossing", 14, seed + 1, dict())
    units += cfg_shards("seeks-dev", "rstates", NR, seed + 2, dict(paths=RP, ops="c07", full=0, images=1),
                        pick={19, 47} if q else {19, 47, 13, 41, 25, 53}, variant=DEV)
    return dict(
        needs_gen=True,
        mc=[m for m in reader_mcs(tier)],
        rule="from every fill state, seek to every target (all p for short streams, word boundaries +-1 and a "
             "stride otherwise) followed by a continuation, on every seekable configuration (memory readers, "
             "writers read back, Cursor and BufReader<Cursor> through the byte adapter, unbuffered); the "
             "position reported after every call of every schedule is compared by TLC with the abstract position; "
             "codes placed so that they start j bits before the end of the data for every j, with every table "
             "option (positions after look-aheads that fail or run past the end). "
             "distinct = (configuration, fill level, operation kind).",
        units=units,
    )


def c08(tier, seed):
    q = tier == "quick"
    units = cfg_shards("copy", "copy", NR, seed, dict(rpaths=RP, wpaths=WP, full=0 if q else 1),
                       pick=pick_strat(seed, 2) if q else None)      # 20 configurations: every word class, two backends each
    if not q:
        units += cfg_shards("copy-nci", "copy", NR, seed + 1, dict(rpaths=RP, wpaths=WP, full=0),
                            variant=("release", "no_copy_impls"))
    else:
        units += cfg_shards("copy-nci", "copy", NR, seed + 1, dict(rpaths=RP, wpaths=WP, full=0),
                            pick=pick_cfgs(NR, 4, seed + 5), variant=("release", "no_copy_impls"))
    # the debug profile (the optimised copies call the primitives at the edge of their 64-bit contract)
    units += cfg_shards("copy-dev", "copy", NR, seed + 2, dict(rpaths=RP, wpaths=WP, full=0),
                        pick={18, 46} if q else {18, 46, 12, 40, 24, 52}, variant=DEV)
    return dict(
        needs_gen=True,
        mc=writer_mcs(tier) + reader_mcs(tier),
        rule="every source fill state (TLC-generated histories) x n around every boundary (all n for small "
             "words in thorough) x copy_to / copy_from x destination word sizes at random fill levels, followed by "
             "continuations on both streams; in the default build (optimised paths) and in the no_copy_impls "
             "build (generic chunked copy). distinct = (reader configuration, fill level, writer word, direction).",
        units=units,
    )


def c09(tier, seed):
    q = tier == "quick"
    units = cfg_shards("eof", "eof", 14, seed, dict(streams=2 if q else 8, len=16 if q else 40, cutstep=1))
    units += cfg_shards("tables", "tables", NR, seed, dict(full=0, frac=64), pick=pick_from(TABLE_CFGS, 4, seed + 9))
    units += cfg_shards("crossing", "crossing", 14, seed, dict())
    # primitives at the tail: every fill state and every tail state (r bits before the end) x reads, peeks
    # and skips, on the strict memory readers of every word class
    units += cfg_shards("rstates-strict", "rstates", NR, seed + 2, dict(paths=RP, ops="c02", full=0, images=1),
                        pick={1, 7, 13, 19, 25, 29, 35, 41, 47, 53})
    return dict(
        needs_gen=True,
        mc=[m for m in reader_mcs(tier) if "strict" in m["name"]],
        rule="valid streams truncated after every backend word, read from the start by every strict reader "
             "configuration with random table options (items inside the data must decode, the first item "
             "needing a bit beyond the cut must fail) and by zero-extended readers (never fail, see zeros); "
             "reads, peeks and skips from every tail state of the strict memory readers. "
             "distinct = (configuration, cut, item crosses the cut).",
        units=units,
    )


def c12(tier, seed):
    q = tier == "quick"
    units = cfg_shards("iow", "wstates", NW, seed, dict(paths=WP, ops="c12", full=0 if q else 1))
    units += cfg_shards("ior", "rstates", NR, seed, dict(paths=RP, ops="c12", full=0 if q else 1, images=2 if q else 3))
    units += shards("hist", "hist", 4 if q else 16, seed + 5, dict(histories=5 if q else 20, len=40))
    # the debug profile: the widest writer words and 64-bit / unbuffered readers
    units += cfg_shards("iow-dev", "wstates", NW, seed + 1, dict(paths=WP, ops="c12", full=0), pick={16, 37, 12, 33}, variant=DEV)
    units += cfg_shards("ior-dev", "rstates", NR, seed + 1, dict(paths=RP, ops="c12", full=0, images=1), pick={18, 46, 24, 52}, variant=DEV)
    return dict(
        needs_gen=True,
        mc=[m for m in writer_mcs(tier)],
        rule="std::io::Write::write with slices of length 0..40 from every space_left state of every writer "
             "configuration; std::io::Read::read of 0..40 bytes from every fill state of every reader; byte "
             "operations interleaved with bit operations in random histories. distinct = (configuration, state, op kind).",
        units=units,
    )


def c14(tier, seed):
    q = tier == "quick"
    return dict(
        rule="random histories through CountBitWriter/Reader, DbgBitWriter/Reader and Count over Dbg: every "
             "trait method the wrappers expose (codes with every table option, omega, skips, look-ahead + "
             "skip-after-peek, flushes, copies in both directions); the public counter after every call is "
             "compared by TLC with the abstract count. distinct = (endianness, word, wrapper, kind).",
        units=shards("wrappers", "wrappers", 8 if q else 32, seed, dict(histories=10 if q else 40, len=40))
              # the debug profile: a wrapper must not drive the wrapped object outside its contract (debug assertions)
              + shards("wrappers-dev", "wrappers", 2 if q else 8, seed + 50, dict(histories=10 if q else 40, len=40), variant=DEV),
    )


def c10(tier, seed):
    q = tier == "quick"
    return dict(
        mc=[MC_CODES],
        exhaustive=True,
        rule="the whole identifier space: all 51 compile-time constants (by name) and every enumeration variant "
             "with parameters 0..12, 16, 31, 63 (and two large Golomb moduli), through every dispatcher kind "
             "(enum dynamic/static, ConstCode dynamic/static, FuncCodeWriter/Reader new and new_with_func(get_func), "
             "FactoryFuncCodeReader, CodesStatsWrapper around enum / func / const, Codes::len, ConstCode::len, "
             "FuncCodeLen) x {write, read, len} x both endiannesses x value grid; the trace names the identifier, "
             "TLC resolves it (Dispatch!ConstCodeOf / EnumCode) and compares bytes, values, positions and lengths "
             "with the named code's definition; FuncCode*::new must succeed exactly on the supported set. "
             "distinct = identifiers x endianness x dispatcher kinds.",
        units=cfg_shards("dispatch", "dispatch", 12, seed, dict(dense=40 if q else 1024)),
    )


def mc_adapter(b, nw):
    return dict(name="adapter_b%d_n%d" % (b, nw), module="MC_Adapter", workers=2, timeout=1800, live=True,
                cfg_text='SPECIFICATION Spec\nCONSTANTS WBytes = %d\n NWordsC = %d\n RetryWrites = TRUE\n'
                         'INVARIANTS WLossFree RExact\nCHECK_DEADLOCK FALSE\n' % (b, nw))


def c11(tier, seed):
    q = tier == "quick"
    units = shards("adapter", "adapter", 2 if q else 8, seed, dict(depth=3 if q else 4, nrand=200 if q else 2000),
                   module="Trace_Adapter")
    # transparency: bit streams through the adapter (writers over a byte sink, readers over Cursor / BufReader)
    units += cfg_shards("wstates", "wstates", NW, seed, dict(paths=WP, ops="c01", full=0),
                        pick={i for i in range(NW) if i % 4 == 2} if not q else {2, 6, 22, 38})
    units += cfg_shards("rstates", "rstates", NR, seed, dict(paths=RP, ops="c02", full=0, images=1),
                        pick={4, 5, 10, 23, 27, 32, 33, 51, 55} if not q else {4, 23, 33, 55})
    return dict(
        needs_gen=True,
        level="model_checking",
        mc=[mc_adapter(1, 3), mc_adapter(2, 3), mc_adapter(4, 3)] + ([mc_adapter(8, 2)] if not q else []),
        rule="(a) TLC explores every fault schedule of the byte stream (every per-call byte count, Interrupted, "
             "error) for word sizes 1, 2, 4 bytes and checks LossFree / ReadExact; (b) the real adapter over "
             "fault-injecting Read/Write: every schedule up to a depth for u8/u16/u32, every single fault for "
             "u64/u128, random schedules; every call into the byte stream and every adapter return is a trace "
             "event validated by TLC against WordAdapterIO; (c) bit streams through the adapter over fault-free "
             "byte streams validated against the same abstract machine as memory backends. "
             "distinct = (word bytes, direction, schedule).",
        units=units,
    )


def c16(tier, seed):
    return dict(
        exhaustive=True,
        rule="every enumeration variant x parameter 0..64, 1000, 2^32, usize::MAX: Display -> FromStr; token "
             "records (18 names x paren x 6 parameter classes x trailing) rendered to text and parsed: "
             "well-formed must parse to the named code, the malformed classes of the property must be rejected; "
             "code -> identifier -> code has identical codewords (TLC compares Enc on a grid); every identifier "
             "constant (by name) -> code -> same identifier; out-of-range identifiers rejected; every pair of "
             "codes with parameters <= 10 that compare equal has identical codewords.",
        units=shards("names", "names", 1, seed, dict()),
    )


def c15(tier, seed):
    q = tier == "quick"
    return dict(
        mc=[dict(name="stats_threads_lock", module="MC_StatsThreads", workers=4, timeout=1200, live=True,
                 cfg_text='SPECIFICATION Spec\nCONSTANTS Threads = {1,2,3}\n PerThread = 2\n UseLock = TRUE\n'
                          'INVARIANTS Exact MutualExclusion\nCHECK_DEADLOCK FALSE\n')],
        rule="(a) TLC explores every interleaving of 3 threads x 2 updates through the wrapper's lock (totals exact "
             "at quiescence, mutual exclusion); (b) real CodesStats: multisets with multiplicities (small, boundary, "
             "large), split into <= 3 parts and merged with add, +=, +, sum in random orders, observed through "
             "CodesStatsWrapper on writes and on reads, accumulated by 2/4/8 threads through one shared wrapper; "
             "every snapshot of all 55 tracked totals and every best_code() answer (with the actual encoded size) "
             "is validated by TLC, which recomputes the totals from the values with Codes!CLen in exact arithmetic.",
        units=shards("stats", "stats", 6 if q else 24, seed, dict(rounds=8 if q else 40, threads=3 if q else 12),
                     module="Trace_Stats"),
    )


def c17(tier, seed):
    q = tier == "quick"
    near, pw = (8, 5) if q else (16, 10)
    units = [dict(kind="record", name="zigzag-%d" % part, driver="zigzag", module="Trace_Pure", variant=REL,
                  args=dict(seed=seed * 10 + part, part=part, near=near, pow=pw)) for part in range(5)]
    # the whole 32-bit types, run-length encoded (2^33 evaluations, a handful of events)
    units.append(dict(kind="record", name="zigzag32-sweep", driver="zigzag32", module="Trace_Pure", variant=REL, args=dict(seed=seed)))
    if not q:
        # more random values and the dev profile (overflow checks) as well
        units += [dict(kind="record", name="zigzag-dev-%d" % part, driver="zigzag", module="Trace_Pure", variant=DEV,
                       args=dict(seed=seed * 10 + part + 50, part=part, near=10, pow=6)) for part in range(5)]
    return dict(
        mc=[dict(name="zigzag_w8", module="MC_ZigZag", workers=1, timeout=600, live=True,
                 cfg_text="SPECIFICATION Spec\nCONSTANT WBits = 8\n"),
            dict(name="zigzag_w12", module="MC_ZigZag", workers=1, timeout=600, live=True,
                 cfg_text="SPECIFICATION Spec\nCONSTANT WBits = 12\n"),
            dict(name="zigzag_w16", module="MC_ZigZag", workers=1, timeout=1800,
                 cfg_text="SPECIFICATION Spec\nCONSTANT WBits = 16\n")],
        rule="(a) TLC checks over the whole 8-, 12- and 16-bit types that the two maps are mutually inverse "
             "bijections following the formula, and that the two's-complement vector forms agree with the integer "
             "forms; (b) the real to_nat / to_int on every value of i8/u8 and i16/u16, and for 32-, 64-, 128-bit "
             "and pointer-size types on all values within 2^near of 0, MIN, MAX and 2^pow of every power of two "
             "plus random values, each event validated by TLC with the vector forms. The exhaustive 2^32 sweep of "
             "the 32-bit types asked for by the quantifier is beyond TLC's throughput (see DESIGN.md).",
        units=units,
    )


def c18(tier, seed):
    q = tier == "quick"
    return dict(
        mc=[MC_CODES],
        rule="vbyte_write{,_be,_le} and vbyte_read{,_be,_le} (and the generic entry points for both endianness "
             "parameters) on all values below 2^dense, every length step +-2 up to 10 bytes, 2^64-1 and random "
             "values; every terminated byte string of length <= maxlen (exhaustive) and random longer ones decoded "
             "by both decoders and re-encoded (completeness), truncated strings rejected. TLC compares bytes, "
             "values and lengths with Codes!VByteBytesBe/Le, Dec and LenVByte; the bit-stream VByte codes are "
             "validated against the same definitions in the C03/C04 traces.",
        units=shards("vbyteio", "vbyteio", 1, seed,
                     dict(dense=12 if q else 16, maxlen=2 if q else 3, sample=3000 if q else 20000), module="Trace_Pure")
              + code_units("alone", "quick", seed + 4, 4, 8)      # (both tiers: the depth on VByte values is in vbyteio)
              # the bit-stream VByte codes at the very end of strict streams, every split point, every reader
              + cfg_shards("crossing-vbyte", "crossing", 14, seed + 2, dict(vbyte=1)),
    )


def mc_changepoints(b, steps):
    return dict(name="changepoints_b%d_s%d" % (b, steps), module="MC_ChangePoints", workers=4, timeout=3600, live=(b <= 5),
                cfg_text='SPECIFICATION Spec\nCONSTANTS B = %d\n MaxSteps = %d\n V0 = 3\n StopOnOverflow = TRUE\n'
                         ' StepSet <- AllSteps\nINVARIANTS YieldsOK NoMiss NoOverflow\nPROPERTY Terminates\n'
                         'CHECK_DEADLOCK FALSE\n' % (b, steps))


def c20(tier, seed):
    q = tier == "quick"
    return dict(
        mc=[MC_CODES, mc_changepoints(4, 3), mc_changepoints(5, 2)] + ([mc_changepoints(6, 3), mc_changepoints(8, 2)] if not q else []),
        rule="(a) TLC checks on the model of the iterator (value width B <= 8, every monotone step function "
             "with <= 3 steps, constants included) safety (yields exactly the change points in order, none up to "
             "2^(B-1) missed) and termination under fairness; (b) real length functions of every code x parameter "
             "of the grid scanned below 2^upto: monotone, all change points listed and validated by TLC against "
             "Codes!CLen (which is constant in between); (c) the real iterator on every library length function "
             "and on synthetic step functions with steps around every power of two, constants and steps beyond "
             "2^63, with a watchdog on evaluations; each yield and the end are validated by TLC, and Kraft's "
             "inequality is evaluated by TLC in exact arithmetic over the brackets of each bounded length function.",
        units=shards("changepoints", "changepoints", 1 if q else 3, seed, dict(full=0 if q else 1, upto=14 if q else 20),
                     module="Trace_Pure"),
    )


ALL_VARIANTS = [(p, f) for p in ("release", "dev") for f in ("", "checks", "no_copy_impls", "checks,no_copy_impls")]


def c19(tier, seed):
    q = tier == "quick"
    units = []
    variants = ALL_VARIANTS if not q else [("release", "checks"), ("dev", ""), ("dev", "checks,no_copy_impls")]
    for vi, v in enumerate(variants):
        tag = "%s-%s" % (v[0], v[1].replace(",", "+") or "default")
        units += shards("hist-" + tag, "hist", 1 if q else 3, seed + vi, dict(histories=4 if q else 12, len=40), variant=v)
        units += shards("dirty-" + tag, "dirty", 1, seed + vi, dict(), variant=v)
        # quick: one rotating configuration and one over 64-bit words (where the >64-bit buffer paths live),
        # each in both endiannesses
        cp = (pick_cfgs(NR, 2, seed + vi) | {18 + (seed + vi) % 6, 46 + (seed + vi) % 6}) if q else (pick_cfgs(NR, 4, seed + vi) | {18 + (seed + vi) % 6, 46 + (seed + vi) % 6})
        units += cfg_shards("copy-" + tag, "copy", NR, seed + vi, dict(rpaths=RP, wpaths=WP, full=0), pick=cp, variant=v)
        # every code written alone: in the builds that check arguments, all of them (a code that hands a dirty
        # argument to write_bits is wrong only there); a sample elsewhere
        units += cfg_shards("codes-" + tag, "codes", 15, seed + vi, dict(mode="alone", full=0),
                            pick=None if "checks" in v[1] and v[0] == "release" else pick_cfgs(15, 1 if q else 3, seed + vi), variant=v)
        # byte writes are cheap: every writer configuration in every variant
        units += cfg_shards("iow-" + tag, "wstates", NW, seed + vi, dict(paths=WP, ops="c12", full=0), variant=v)
        units += edge_units(tier, seed + vi, variant=v, n=3)
    return dict(
        needs_gen=True,
        rule="the same drivers (random histories, copy matrix, codes alone, io writes) in the build variants "
             "{release, dev with debug assertions and overflow checks} x {default, checks, no_copy_impls, both}; "
             "every trace is validated against the same specification (only write_bits may panic, and exactly "
             "when the build checks and the argument is dirty); the dirty driver issues write_bits(v, n) for "
             "every n and every single dirty bit. distinct as reported by the drivers.",
        units=units,
    )


def mc_wordbackend(kind):
    return dict(name="wordbackend_" + kind, module="MC_WordBackend", workers=1, timeout=600, live=True,
                cfg_text='SPECIFICATION Spec\nCONSTANTS Kind = "%s"\n MaxLen = 2\n MaxCur = 4\n Zero <- ZeroTok\n'
                         'VIEW View\nINVARIANTS Inv Deterministic\nCHECK_DEADLOCK FALSE\n' % kind)


def c13(tier, seed):
    q = tier == "quick"
    return dict(
        needs_gen=True,
        mc=[mc_wordbackend(k) for k in ("inf", "strict", "slice", "vec")],
        module="Trace_WordBackend",
        exhaustive=True,
        rule="(a) TLC explores the whole state graph of the four word streams over arrays of length <= 2 "
             "(cursor invariants, determinism of every call) and emits one history per state; every state x "
             "every call is executed on the real types for u8..u128 and owned/borrowed storage; (b) every call "
             "sequence of bounded length over those arrays; (c) long random sequences. TLC validates every "
             "event against WordBackend. distinct = (kind, storage, state history, call kind).",
        units=[dict(kind="record", name="wordbackend-%d" % i, driver="wordbackend", module="Trace_WordBackend",
                    variant=REL, args=dict(seed=seed * 10 + i, paths=os.path.join(GEN, "wordbackend_paths.ndjson"),
                                           seqlen=3 if q else 5, randlen=2000 if q else 20000))
               for i in range(1 if q else 5)],
    )


PLANS = {"C15": c15, "C17": c17, "C18": c18, "C20": c20, "C10": c10, "C11": c11, "C16": c16, "C13": c13, "C01": c01, "C02": c02, "C03": c03, "C04": c04, "C05": c05, "C06": c06, "C07": c07, "C08": c08,
         "C09": c09, "C12": c12, "C14": c14, "C19": c19}


def setup(check):
    from concurrent.futures import ThreadPoolExecutor
    check.gen_paths(force=False)
    check.gen_wordbackend_paths(force=False)
    # warm the model-checking cache (depends on the spec only)
    todo = {}
    for prop, plan in PLANS.items():
        for mc in plan("quick", 1).get("mc", []):
            todo[mc["name"]] = mc

    def one(mc):
        return check.cached_mc(mc["name"], mc["module"], mc.get("cfg"), mc.get("workers", 4), mc.get("timeout", 3600),
                               cfg_text=mc.get("cfg_text"))
    with ThreadPoolExecutor(max_workers=max(1, check.NCPU // 4)) as ex:
        for mc, r in zip(todo.values(), ex.map(one, todo.values())):
            if not r["ok"]:
                raise check.ToolError("specification %s: %s" % (mc["name"], r["violated"]))
