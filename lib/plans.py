"""Per-property verification plans: which TLC model-checking instances, which
drivers (record) / schedules (exec) and which trace specification."""

SETUP_VARIANTS = [("release", "")]

REL = ("release", "")
DEV = ("dev", "")


def shards(name, driver, n, seed, args, module="Trace_BitStream", variant=REL):
    out = []
    for i in range(n):
        a = dict(args)
        a["seed"] = seed * 1000 + i
        out.append(dict(kind="record", name="%s-%d" % (name, i), driver=driver, args=a, module=module,
                        variant=variant))
    return out


def c01(tier, seed):
    q = tier == "quick"
    return dict(
        rule="random writer histories replicated on all five word sizes and random backends; "
             "every call is one trace event validated by TLC against BitStream (layout contract, "
             "append-only delivery, flush/close semantics)",
        units=shards("hist", "hist", 8 if q else 32, seed, dict(histories=6 if q else 20, len=40)),
    )


PLANS = {"C01": c01}


def setup(check):
    pass
