#!/usr/bin/env python3
"""Regenerate MANIFEST.json from the plans' metadata (lib/meta.py)."""
import json, os, sys
sys.path.insert(0, os.path.dirname(os.path.abspath(__file__)))
import meta
root = os.path.dirname(os.path.dirname(os.path.abspath(__file__)))
props = [json.loads(l)["id"] for l in open(os.path.join(root, "properties.jsonl"))]
checks = []
na = []
for p in props:
    m = meta.META.get(p)
    if m is None or m.get("not_applicable"):
        na.append(dict(property_id=p, reason=(m or {}).get("not_applicable", "no check built yet at this commit")))
        continue
    checks.append(dict(
        property_id=p,
        quick_cmd="./check %s --tier quick" % p,
        thorough_cmd="./check %s --tier thorough" % p,
        evidence_file="evidence/%s.json" % p,
        replay_cmd_template="./check %s --replay {path}" % p,
        engine="tlc-trace-validation",
        level_claimed=dict(category="model_checking", text=m["text"], design_ref=m["design_ref"]),
        level_note=m["note"],
        technique=m["technique"],
    ))
man = dict(
    version=1,
    setup_cmd="./check --setup",
    hooks=dict(
        guard="dsi_bitstream_verif",
        enable="harness/.cargo/config.toml passes --cfg dsi_bitstream_verif (rustflags) to every crate of the harness build, including the path dependency /repo",
        baseline_off_cmd="cd /repo && cargo nextest run --workspace --no-fail-fast --tool-config-file pb:/w/lib/nextest.toml --profile pb --test-threads 8 --offline || cargo test --workspace --no-fail-fast --offline",
        source_commits=meta.HOOK_COMMITS,
        add_only=True,
    ),
    engines=[dict(name="tlc-trace-validation", path="check",
                  serves_properties=[c["property_id"] for c in checks],
                  kind_free_text="TLA+ specification (spec/*.tla) model-checked with TLC; bound to the code by "
                                 "trace validation of recorded executions (impl -> spec) and by executing "
                                 "TLC-generated schedules on the real types (spec -> impl)")],
    checks=checks,
    notes=meta.NOTES,
    not_applicable=na,
)
json.dump(man, open(os.path.join(root, "MANIFEST.json"), "w"), indent=1)
print("checks:", len(checks), "not_applicable:", len(na))
