#!/bin/bash
# seed_eval.sh <ID> [worktree]: confirm a seeded change (suite passes, demo fails with / passes without),
# store it under /verif/seeded/<ID>/, run the property's quick check against it in /repo, and undo.
set -u
ID=$1; WT=${2:-/tmp/wt/$ID}; PROP=${3:-$(echo $ID | cut -c1-3)}
D=/verif/seeded/$ID
mkdir -p $D
cp $WT/_seed/patch.diff $WT/_seed/demo.rs $WT/_seed/meta.json $D/ 2>/dev/null
cd $WT || exit 2
# start from the pristine source (never git stash: the stash is shared by all worktrees)
git checkout -q -- src
mkdir -p tests && cp $D/demo.rs tests/demo.rs
FEAT=$(python3 -c "import json,sys; m=json.load(open('$D/meta.json')); c=m.get('demo_cmd',''); print('--features checks' if 'checks' in c else '')" 2>/dev/null)
DEMO_WITHOUT=$( (cargo test --offline $FEAT --test demo 2>&1 || true) | grep -E "^test result" | tail -1)
git apply $D/patch.diff || { echo "patch does not apply in worktree"; exit 2; }
SUITE=$( (cargo nextest run --workspace --no-fail-fast --offline -E 'not binary(demo)' 2>&1 || true) | grep -E "Summary|tests run" | tail -1)
DEMO_WITH=$( (cargo test --offline $FEAT --test demo 2>&1 || true) | grep -E "^test result" | tail -1)
rm -f tests/demo.rs
echo "suite(with): $SUITE"; echo "demo(with): $DEMO_WITH"; echo "demo(without): $DEMO_WITHOUT"
# our check against it
cd /verif
git -C /repo apply $D/patch.diff || { echo "patch does not apply"; exit 2; }
START=$(date +%s)
OUT=$(./check $PROP 2>&1 | grep -E "VIOLATION|KNOWN-FINDING|TOOL-ERROR" | head -5); RC=$?
END=$(date +%s)
git -C /repo checkout -- .
echo "check $PROP: $OUT ($((END-START))s)"
python3 - "$ID" "$PROP" "$SUITE" "$DEMO_WITH" "$DEMO_WITHOUT" "$OUT" <<'PY'
import json,sys
id,prop,suite,dw,dwo,out=sys.argv[1:7]
p='/verif/seeded/%s/meta.json'%id
try: m=json.load(open(p))
except Exception: m={}
m.update(property=prop, confirmed=dict(existing_suite_with_change=suite, demo_with_change=dw, demo_without_change=dwo),
         ran="git -C /repo apply patch.diff; ./check %s (quick); git -C /repo checkout -- ."%prop,
         detected=("VIOLATION" in out), check_output=out)
json.dump(m,open(p,'w'),indent=1)
PY
