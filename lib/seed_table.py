#!/usr/bin/env python3
"""Rebuild DESIGN.md §13.7 (seeded changes x detection) from seeded/*/meta.json."""
import json, os, re
root = os.path.dirname(os.path.dirname(os.path.abspath(__file__)))
rows = []
for d in sorted(os.listdir(os.path.join(root, "seeded"))):
    p = os.path.join(root, "seeded", d, "meta.json")
    if not os.path.exists(p):
        continue
    m = json.load(open(p))
    runs = " / ".join(r.replace("\n", "; ") for r in m.get("check_runs", []))
    caught = [re.match(r"(C\d+):", x.strip()).group(1) for r in m.get("check_runs", []) for x in r.split("\n") if "VIOLATION" in x and re.match(r"(C\d+):", x.strip())]
    rows.append("| %s | %s | %s | %s | %s |" % (d, m.get("property", ""), (m.get("summary", "") or "").replace("|", "/")[:160],
                                             (m.get("needs", "") or "").replace("|", "/")[:160],
                                             ("caught by " + ", ".join(sorted(set(caught)))) if caught else ("NOT caught" if m.get("check_runs") else "not run")))
table = "\n### 13.7 Seeded changes: detection table\n\nEach change compiles, passes the pinned suite (33/33) and comes with a demonstration that fails with it and passes without it (`seeded/<id>/confirm.txt`).  Quick tier, seed 1, unless noted in `meta.json`.\n\n| id | property | change | needs | result |\n|---|---|---|---|---|\n" + "\n".join(rows) + "\n"
p = os.path.join(root, "DESIGN.md")
s = open(p).read()
i = s.find("\n### 13.7 Seeded changes: detection table")
if i >= 0:
    s = s[:i]
open(p, "w").write(s.rstrip("\n") + "\n" + table)
print(len(rows), "rows")
