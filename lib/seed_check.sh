#!/bin/bash
# seed_check.sh <ID> [PROP ...]: phase B: apply the confirmed change to /repo, run the quick check(s), undo.
ID=$1; shift; PROPS=${@:-$(echo $ID | cut -c1-3)}
D=/verif/seeded/$ID
cd /verif
[ -z "$(git -C /repo status --porcelain)" ] || { echo "/repo not clean"; exit 2; }
git -C /repo apply $D/patch.diff || { echo "patch does not apply"; exit 2; }
RES=""
for P in $PROPS; do
  S=$(date +%s)
  OUT=$(./check $P 2>&1 | grep -E "VIOLATION|KNOWN-FINDING|TOOL-ERROR" | head -3)
  E=$(date +%s)
  echo "$ID -> check $P ($((E-S))s): ${OUT:-no violation reported}"
  RES="$RES$P: ${OUT:-no violation reported} ($((E-S))s)\n"
done
git -C /repo checkout -- .
python3 - "$ID" "$RES" "$PROPS" <<'PY'
import json,sys
id,res,props=sys.argv[1:4]
p='/verif/seeded/%s/meta.json'%id
try: m=json.load(open(p))
except Exception: m={}
c={}
try:
    for l in open('/verif/seeded/%s/confirm.txt'%id):
        k,v=l.split(':',1); c[k.strip()]=v.strip()
except Exception: pass
m['confirmed']=c
m['ran']="seed_confirm.sh (suite + demo with/without in a scratch worktree); git -C /repo apply patch.diff; ./check %s (quick); git -C /repo checkout -- ." % props
runs=m.get('check_runs',[])
runs.append(res.replace('\\n','\n').strip())
m['check_runs']=runs
m['detected']=any('VIOLATION' in r for r in runs)
json.dump(m,open(p,'w'),indent=1)
PY
