#!/bin/bash
# seed_confirm.sh <ID>: phase A, inside the scratch worktree only: the existing suite passes with the
# change, the demonstration fails with it and passes without it.  Writes /verif/seeded/<ID>/confirm.txt
ID=$1; WT=/tmp/wt/$ID; D=/verif/seeded/$ID
mkdir -p $D
cp $WT/_seed/patch.diff $WT/_seed/demo.rs $WT/_seed/meta.json $D/ 2>/dev/null || { echo "$ID: no deliverables"; exit 2; }
cd $WT || exit 2
git checkout -q -- src
mkdir -p tests && cp $D/demo.rs tests/demo.rs
FEAT=$(python3 -c "import json; m=json.load(open('$D/meta.json')); c=str(m.get('demo_cmd',''))+str(m.get('needs','')); print('--features checks' if '--features checks' in c else '')" 2>/dev/null)
DEMO_WITHOUT=$( (cargo test --offline $FEAT --test demo 2>&1 || true) | grep -E "^test result" | tail -1)
git apply $D/patch.diff || { echo "$ID: patch does not apply"; exit 2; }
SUITE=$( (cargo nextest run --workspace --no-fail-fast --offline -E 'not binary(demo)' 2>&1 || true) | grep -E "Summary" | tail -1)
DEMO_WITH=$( (cargo test --offline $FEAT --test demo 2>&1 || true) | grep -E "^test result" | tail -1)
rm -f tests/demo.rs
printf "suite_with_change: %s\ndemo_with_change: %s\ndemo_without_change: %s\n" "$SUITE" "$DEMO_WITH" "$DEMO_WITHOUT" > $D/confirm.txt
echo "$ID | $SUITE | with: $DEMO_WITH | without: $DEMO_WITHOUT"
